// The unmodified ninja objects with a plain main(): used by the fidelity check.
int ninja_main(int argc, char** argv);
int main(int argc, char** argv) { return ninja_main(argc, argv); }
