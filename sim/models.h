// Reference models: log folds, make-semantics dirtiness, helpers.
#pragma once
#include <map>
#include <set>
#include <string>
#include <vector>
#include "scenario.h"

namespace sim {

struct LogRec { int start = 0, end = 0; int64_t mtime = 0; uint64_t hash = 0; };
struct BuildLogFold {
  bool present = false;        // file exists
  bool valid_header = false;   // supported version header on the first line
  int version = 0;
  std::map<std::string, LogRec> last;   // last complete record per output
  int total = 0;
};
// Fold over the durable bytes: lines that end in \n and have >= 4 tabs.
BuildLogFold FoldBuildLog(const std::string& bytes, bool present);

struct DepsRec { int64_t mtime = 0; std::vector<std::string> deps; };
struct DepsLogFold {
  bool present = false;
  bool valid_header = false;
  std::vector<std::string> paths;           // id -> path, in file order
  std::map<std::string, DepsRec> last;      // last complete record per output
  size_t good_size = 0;                     // offset of the first bad/incomplete record
  bool clean_eof = false;                   // file ends exactly after a complete record
  int total = 0;
};
DepsLogFold FoldDepsLog(const std::string& bytes, bool present);

uint64_t NinjaCommandHash(const std::string& command);   // rapidhash, same as BuildLog::LogEntry::HashCommand

std::string JsonEscape(const std::string& s);

}  // namespace sim
