// SimOS: an in-memory POSIX layer under the real ninja main().
// See /verif/DESIGN.md section 2.  Everything here is harness ("kernel") code:
// it always runs with the malloc allocator, never with the simulated arena.
#pragma once
#include <stdint.h>
#include <stdio.h>
#include <signal.h>
#include <functional>
#include <map>
#include <memory>
#include <set>
#include <string>
#include <vector>

namespace sim {

// ---------------------------------------------------------------- PRNG / tape
struct Rng {
  uint64_t s[4];
  explicit Rng(uint64_t seed = 1) { Seed(seed); }
  static uint64_t SplitMix(uint64_t& x) {
    uint64_t z = (x += 0x9e3779b97f4a7c15ull);
    z = (z ^ (z >> 30)) * 0xbf58476d1ce4e5b9ull;
    z = (z ^ (z >> 27)) * 0x94d049bb133111ebull;
    return z ^ (z >> 31);
  }
  void Seed(uint64_t seed) { for (int i = 0; i < 4; i++) s[i] = SplitMix(seed); }
  static uint64_t Rotl(uint64_t x, int k) { return (x << k) | (x >> (64 - k)); }
  uint64_t Next() {
    uint64_t r = Rotl(s[1] * 5, 7) * 9, t = s[1] << 17;
    s[2] ^= s[0]; s[3] ^= s[1]; s[1] ^= s[2]; s[0] ^= s[3]; s[2] ^= t;
    s[3] = Rotl(s[3], 45);
    return r;
  }
};

// The choice tape: every nondeterministic decision of a run is one entry.
// Search mode: entries come from a per-stream PRNG and are recorded.
// Replay mode: entries come from the recorded tape, 0 when exhausted.
struct Tape {
  uint64_t seed = 1;
  uint64_t scen_seed = 0;      // when non-zero, stream 0 (the scenario) is seeded from this instead
  bool replay = false;
  std::map<int, std::vector<uint32_t>> rec;   // stream -> values
  std::map<int, size_t> pos;
  std::map<int, Rng> rng;
  uint32_t Raw(int stream);
  // value in [0,n); n==0 -> 0
  uint32_t Choice(int stream, uint32_t n) { uint32_t r = Raw(stream); return n ? r % n : 0; }
  bool Coin(int stream, uint32_t num, uint32_t den) { return Choice(stream, den) < num; }
  void Reset() { pos.clear(); rng.clear(); if (!replay) rec.clear(); }
  size_t Mark(int stream) { return pos[stream]; }
  void Rewind(int stream, size_t mark) { pos[stream] = mark; }
};

// ---------------------------------------------------------------- file system
struct Inode {
  enum Kind { kFile, kDir, kFifo };
  Kind kind = kFile;
  std::string data;      // file bytes / fifo queue
  int64_t mtime = 0;     // ns
};
typedef std::shared_ptr<Inode> InodeP;

struct FS {
  std::map<std::string, InodeP> nodes;   // absolute, normalised path -> inode
  FS Clone() const;
  Inode* Find(const std::string& p) const {
    auto i = nodes.find(p); return i == nodes.end() ? nullptr : i->second.get();
  }
};

// ---------------------------------------------------------------- trace
struct Ev {
  enum Kind {
    kSpawn, kChildExit, kReap, kKill, kFsCreate, kFsWrite, kFsRemove, kFsRename,
    kFsMkdir, kFsTruncate, kStdout, kStderr, kChildTty, kBlock, kSignal, kFault,
    kTokenRead, kTokenWrite, kOpenRead, kStat, kProcEnd, kChildEffect
  };
  Kind kind;
  uint64_t seq;       // global event sequence number
  int64_t time;       // simulated ns
  int64_t sysno;      // syscall index of the process at that moment
  int a = 0, b = 0;   // pid / status / signo / ...
  std::string s, t;   // path / bytes / command
};

// ---------------------------------------------------------------- children
struct Kernel;
struct Child;

// What a scripted child does.  Steps run at start_time + at_ns, in order.
struct ChildStep {
  int64_t at_ns = 0;
  enum Kind { kOutput, kEffect, kClosePipe, kExit } kind = kExit;
  std::string bytes;                       // kOutput
  std::function<void(Kernel&, Child&)> fn; // kEffect
  int status = 0;                          // kExit: wait status (already encoded)
};
struct ChildPlan {
  std::vector<ChildStep> steps;
  // On a kill() from ninja (interrupt path): 0 = die at once, effects not run;
  // 1 = run the remaining effects partially (first effect only) then die;
  // 2 = ignore the signal and finish normally.
  int on_signal = 0;
  int tag = -1;                            // driver's statement id, -1 unknown
  // the command is a shell that started a program in its own process group (a pipeline, a
  // subshell): a signal sent to the pid alone, not to the group, only stops the shell
  bool multi_process = false;
};

struct Child {
  int pid = 0;
  bool console = false;
  int pipe_id = -1;          // write end it holds, -1 none/closed
  std::string cmd;
  ChildPlan plan;
  size_t next_step = 0;
  int64_t start_time = 0;
  bool exited = false, reaped = false, killed = false;
  bool survivor = false;     // the shell is dead (and can be reaped), the program it started goes on
  int status = 0;
  uint64_t spawn_seq = 0;
};

struct Pipe { std::string buf; int writers = 0; int readers = 0; };

// ---------------------------------------------------------------- faults
struct FaultPlan {
  int64_t crash_at = -1;           // die before executing syscall #k
  int64_t torn_at = -1;            // k-th syscall, if a write: keep a prefix, then die
  uint32_t torn_keep = 0;          // bytes kept = torn_keep % len
  int64_t torn_write_nth = -1;     // alternative addressing: the n-th file write (0-based) is torn
  int64_t crash_write_nth = -1;    // die before the n-th file write
  bool orphans_finish = false;     // children of a crashed ninja run to completion
  std::vector<std::pair<int64_t, int>> signals;   // (syscall #, signo) made pending
  std::map<int64_t, int> io_errors;                // syscall # -> errno, if failable
  // buggify: probability (per mille) of each legal-but-unusual behaviour
  int pm_eintr = 0, pm_short_read = 0, pm_spurious_wake = 0, pm_eagain_token = 0;
  int pm_slow_wake = 0;   // ninja is not scheduled at once when its ppoll is over: more commands may have ended by the time it looks
  int stream = 0;                  // tape stream for schedule/buggify coins
};

// ---------------------------------------------------------------- process
struct TtyConfig {
  bool stdout_tty = false;
  int cols = 80;
};

struct ProcSpec {
  std::vector<std::string> argv;
  std::map<std::string, std::string> env;
  TtyConfig tty;
  FaultPlan faults;
  int nproc = 4;
  int64_t max_syscalls = 400000;
  bool record_stats = false;     // record kStat events (off: too many)
};

struct ProcResult {
  enum End { kExit, kCrashed, kAbort, kAssert, kHang, kBudget, kTerminate };
  End end = kExit;
  int exit_code = 0;
  std::string end_detail;
  std::string out, err;          // ninja's own stdout / stderr bytes
  std::string tty;               // what a terminal would show: ninja stdout + console children, in order
  std::vector<Ev> trace;
  int64_t nsyscalls = 0;
  int64_t sim_ns = 0;
  std::map<std::string, int> fired;   // faults / buggify that actually happened
  std::vector<std::pair<int64_t, char>> sys_kinds; // (index, kind char) when FaultProbe on
};

struct SpawnHandler {
  virtual ~SpawnHandler() {}
  // Called inside the simulated posix_spawn.  May inspect the FS (read set).
  virtual ChildPlan OnSpawn(Kernel& k, const std::string& cmd, bool console) = 0;
  // Optional hooks, called at every blocking point with time about to advance.
  virtual void OnIdle(Kernel&) {}
};

struct Actor {   // external actor (editor, jobserver peer): events on the queue
  int64_t at_ns;
  std::function<void(Kernel&)> fn;
};

struct Kernel {
  // durable world
  FS fs;
  int64_t now = 1000000000000000000ll;  // ns
  uint64_t seq = 0;
  bool coarse_clock = false;            // see DESIGN section 3 "clock modes"
  int64_t last_issued = 0;              // newest timestamp handed out
  Tape* tape = nullptr;
  std::string cwd = "/w";

  // ------ API for drivers
  ProcResult RunNinja(const ProcSpec& spec, SpawnHandler* h);
  // Run harness code as a simulated process (log-session driver).
  ProcResult RunFunction(const ProcSpec& spec, std::function<int()> body);
  void AddActor(int64_t delay_ns, std::function<void(Kernel&)> fn);
  void SendSignal(int signo);                 // to the running ninja process
  std::function<void(const Ev&)> on_event;    // live observer of the trace
  std::function<void()> on_proc_exit;         // the instant the process ended, before orphans go on
  std::vector<Actor> start_actors;            // external actors put on the event queue when the next process starts

  // file helpers (absolute or cwd-relative paths), usable by drivers & children
  std::string Abs(const std::string& p) const;
  bool Exists(const std::string& p) const { return fs.Find(Abs(p)) != nullptr; }
  bool ReadFile(const std::string& p, std::string* out) const;
  void WriteFile(const std::string& p, const std::string& data, bool external_edit = false);
  void ReplaceFile(const std::string& p, const std::string& data);   // atomic replace (new inode)
  void Touch(const std::string& p, bool external_edit = true);
  bool Remove(const std::string& p);
  void MkdirP(const std::string& p);
  void MkFifo(const std::string& p, const std::string& tokens);
  int64_t Mtime(const std::string& p) const { Inode* i = fs.Find(Abs(p)); return i ? i->mtime : 0; }
  // timestamps
  int64_t Stamp(bool force_new_tick);       // timestamp for an FS mutation
  void NewTick();                           // force the clock to a fresh tick
  void Advance(int64_t ns) { now += ns; }
  void Trace(Ev::Kind k, int a, int b, const std::string& s, const std::string& t = std::string());

  // ------ internals (used by wrappers)
  struct Proc;
  Proc* proc = nullptr;
  SpawnHandler* handler = nullptr;
};

// worker-level initialisation (arena, alt stack, stdio)
void GlobalInit();
void ArmWatchdog(int seconds);   // CPU seconds for the current run; 0 disarms
// printf to the worker's real stdout, safe from anywhere in harness code
void HPrintf(const char* fmt, ...) __attribute__((format(printf, 1, 2)));
extern FILE* g_real_stdout;

std::string NormPath(const std::string& abs);
uint64_t Hash64(const void* p, size_t n, uint64_t seed = 0);
inline uint64_t Hash64(const std::string& s, uint64_t seed = 0) { return Hash64(s.data(), s.size(), seed); }

}  // namespace sim
