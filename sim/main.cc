// simninja: batch runner, replay and shrinking for the simulated histories.
#include <errno.h>
#include <stdio.h>
#include <stdlib.h>
#include <string.h>
#include <time.h>
#include <unistd.h>
#include <algorithm>
#include <string>
#include "world.h"

using namespace sim;

namespace sim { RunResult RunLogChain(Tape& tape, const std::string& profile, bool thorough); int RealChildMain(int, char**); int FidelityMain(uint64_t seed, uint64_t first, uint64_t count, const std::string& realninja, const std::string& self); }

static RunResult RunAny(Tape& t, const Profile& prof, const std::string& profile, const std::string& tier) {
  if (profile == "C08" || profile == "C09") return RunLogChain(t, profile, tier == "thorough");
  return RunOne(t, prof);
}

static uint64_t RunSeed(uint64_t verif_seed, uint64_t idx) {
  uint64_t x = verif_seed;
  return Rng::SplitMix(x) ^ (idx * 0x9e3779b97f4a7c15ull);
}

static std::string TapeJson(const Tape& t) {
  std::string s = "{";
  bool first = true;
  for (auto& kv : t.rec) {
    if (!first) s += ",";
    first = false;
    s += "\"" + std::to_string(kv.first) + "\":[";
    for (size_t i = 0; i < kv.second.size(); i++) { if (i) s += ","; s += std::to_string(kv.second[i]); }
    s += "]";
  }
  return s + "}";
}

// minimal reader for the replay file: finds "tape":{...}, "profile":"..", "tier":".."
static bool ReadAll(const char* path, std::string* out) {
  FILE* f = fopen(path, "rb");
  if (!f) return false;
  char buf[65536]; size_t n;
  while ((n = fread(buf, 1, sizeof buf, f)) > 0) out->append(buf, n);
  fclose(f);
  return true;
}
static std::string JsonStr(const std::string& doc, const std::string& key) {
  size_t p = doc.find("\"" + key + "\":");
  if (p == std::string::npos) return "";
  p = doc.find('"', p + key.size() + 3);
  if (p == std::string::npos) return "";
  size_t e = doc.find('"', p + 1);
  return doc.substr(p + 1, e - p - 1);
}
static bool ParseTape(const std::string& doc, Tape* t) {
  size_t p = doc.find("\"tape\":");
  if (p == std::string::npos) return false;
  p = doc.find('{', p);
  size_t i = p + 1;
  while (i < doc.size() && doc[i] != '}') {
    if (doc[i] == '"') {
      size_t e = doc.find('"', i + 1);
      int stream = atoi(doc.substr(i + 1, e - i - 1).c_str());
      size_t a = doc.find('[', e), b = doc.find(']', a);
      std::vector<uint32_t>& v = t->rec[stream];
      size_t j = a + 1;
      while (j < b) {
        char* end;
        unsigned long x = strtoul(doc.c_str() + j, &end, 10);
        if (end == doc.c_str() + j) break;
        v.push_back((uint32_t)x);
        j = end - doc.c_str();
        if (doc[j] == ',') j++;
      }
      i = b + 1;
    } else i++;
  }
  t->replay = true;
  return true;
}

static void PrintRunLine(uint64_t idx, const RunResult& rr, bool with_decoded = false) {
  std::string s = "{\"run\":" + std::to_string(idx) + ",";
  if (with_decoded) s += "\"decoded\":\"" + JsonEscape(rr.decoded) + "\",";
  s += "\"viol\":[";
  for (size_t i = 0; i < rr.violations.size(); i++) {
    if (i) s += ",";
    s += "{\"prop\":\"" + rr.violations[i].prop + "\",\"cls\":\"" + rr.violations[i].cls + "\",\"msg\":\"" + JsonEscape(rr.violations[i].msg) + "\"}";
  }
  char b[128];
  snprintf(b, sizeof b, "],\"sig\":\"%016llx\",\"hash\":\"%016llx\",\"inv\":%ld,\"spawns\":%ld,\"sim_ns\":%lld", (unsigned long long)rr.stats.sig,
           (unsigned long long)rr.stats.full_hash, rr.stats.invocations, rr.stats.spawns, (long long)rr.stats.sim_ns);
  s += b;
  s += ",\"n\":{";
  bool first = true;
  for (auto& kv : rr.stats.n) { if (!first) s += ","; first = false; s += "\"" + kv.first + "\":" + std::to_string(kv.second); }
  s += "},\"faults\":{";
  first = true;
  for (auto& kv : rr.stats.faults) { if (!first) s += ","; first = false; s += "\"" + kv.first + "\":" + std::to_string(kv.second); }
  s += "}";
  if (!rr.stats.small_shape.empty()) s += ",\"small\":{\"shape\":\"" + rr.stats.small_shape + "\",\"order\":\"" + rr.stats.small_order + "\",\"linext\":" + std::to_string(rr.stats.small_linext) + "}";
  s += ",\"nontrivial\":[";
  first = true;
  for (auto& kv : rr.stats.nontrivial) if (kv.second) { if (!first) s += ","; first = false; s += "\"" + kv.first + "\""; }
  s += "]}";
  HPrintf("%s\n", s.c_str());
  fflush(g_real_stdout);
}

static void WriteReplay(const std::string& path, const std::string& profile, const std::string& tier, uint64_t seed, uint64_t idx,
                        const Tape& tape, const RunResult& rr, bool minimised) {
  FILE* f = fopen(path.c_str(), "wb");
  if (!f) return;
  fprintf(f, "{\"profile\":\"%s\",\"tier\":\"%s\",\"seed\":%llu,\"run_index\":%llu,\"minimised\":%s,\n", profile.c_str(), tier.c_str(),
          (unsigned long long)seed, (unsigned long long)idx, minimised ? "true" : "false");
  fprintf(f, "\"violations\":[");
  for (size_t i = 0; i < rr.violations.size(); i++)
    fprintf(f, "%s{\"prop\":\"%s\",\"cls\":\"%s\",\"msg\":\"%s\"}", i ? "," : "", rr.violations[i].prop.c_str(), rr.violations[i].cls.c_str(),
            JsonEscape(rr.violations[i].msg).c_str());
  fprintf(f, "],\n\"trace_hash\":\"%016llx\",\n\"tape\":%s,\n\"decoded\":\"%s\"}\n", (unsigned long long)rr.stats.full_hash, TapeJson(tape).c_str(),
          JsonEscape(rr.decoded).c_str());
  fclose(f);
}

static bool HasViolation(const RunResult& rr, const std::string& prop, const std::string& cls) {
  for (auto& v : rr.violations) if (v.prop == prop && (cls.empty() || v.cls == cls)) return true;
  return false;
}

// Greedy tape minimisation: drop tail blocks, zero values, keeping the same
// violation class of the same property.
static Tape Shrink(const Tape& orig, const Profile& prof, const std::string& profile, const std::string& tier, const std::string& prop, const std::string& cls, int budget, int* reruns) {
  Tape best = orig;
  best.replay = true;
  const char* dump = getenv("SIM_SHRINK_DUMP");   // debugging: the candidate about to run (survives a crash of that run)
  auto still = [&](Tape& cand) {
    (*reruns)++;
    cand.replay = true;
    if (dump) { RunResult none; WriteReplay(dump, profile, tier, orig.seed, 0, cand, none, true); }
    RunResult rr = RunAny(cand, prof, profile, tier);
    return HasViolation(rr, prop, cls);
  };
  // expensive runs (a violation that is itself a runaway loop costs seconds per
  // re-run) get a CPU-time cap as well: whatever is reached by then is reported
  const clock_t t0 = clock();
  auto in_time = [&]() { return (double)(clock() - t0) / CLOCKS_PER_SEC < 75.0; };
  bool progress = true;
  while (progress && *reruns < budget && in_time()) {
    progress = false;
    for (auto& kv : orig.rec) {
      int st = kv.first;
      // 1. truncate the stream (exhausted tape reads as 0 = simplest choice)
      for (size_t cut = 0; cut < best.rec[st].size() && *reruns < budget && in_time(); ) {
        Tape c = best;
        size_t keep = cut;
        if (keep >= c.rec[st].size()) break;
        c.rec[st].resize(keep);
        if (still(c)) { best = c; progress = true; break; }
        cut = cut ? cut * 2 : 1;
      }
      // 2. zero individual values
      for (size_t i = 0; i < best.rec[st].size() && *reruns < budget && in_time(); i++) {
        if (best.rec[st][i] == 0) continue;
        Tape c = best;
        c.rec[st][i] = 0;
        if (still(c)) { best = c; progress = true; }
      }
    }
  }
  return best;
}

namespace sim { extern bool g_live_trace; extern bool g_debug_explain; }
int main(int argc, char** argv) {
  sim::g_live_trace = getenv("SIM_LIVE") != nullptr;
  sim::g_debug_explain = getenv("SIM_DEBUG_EXPLAIN") != nullptr;
  GlobalInit();
  if (argc < 2) { fprintf(stderr, "usage: simninja run|replay|shrink|logdrv ...\n"); return 2; }
  std::string cmd = argv[1];
  if (cmd == "realchild") return RealChildMain(argc, argv);
  std::string profile = "C01", tier = "quick", outdir = "/tmp";
  uint64_t seed = 1, first = 0, count = 1, scen_seed = 0;
  std::string file;
  bool verbose = false, decoded_first = false;
  for (int i = 2; i < argc; i++) {
    std::string a = argv[i];
    auto next = [&]() { return std::string(i + 1 < argc ? argv[++i] : ""); };
    if (a == "--profile") profile = next();
    else if (a == "--tier") tier = next();
    else if (a == "--seed") seed = strtoull(next().c_str(), nullptr, 10);
    else if (a == "--first") first = strtoull(next().c_str(), nullptr, 10);
    else if (a == "--count") count = strtoull(next().c_str(), nullptr, 10);
    else if (a == "--out-dir") outdir = next();
    else if (a == "-v") verbose = true;
    else if (a == "--decoded-first") decoded_first = true;
    else if (a == "--prop" || a == "--cls") next();
    else if (a == "--scen-seed") scen_seed = strtoull(next().c_str(), nullptr, 10);
    else file = a;
  }
  if (cmd == "fidelity") {
    char selfp[4096];
    ssize_t n = readlink("/proc/self/exe", selfp, sizeof selfp - 1);
    selfp[n > 0 ? n : 0] = 0;
    return FidelityMain(seed, first, count, file, selfp);
  }
  if (cmd == "run") {
    Profile prof = GetProfile(profile, tier == "thorough");
    for (uint64_t i = first; i < first + count; i++) {
      Tape t;
      t.seed = RunSeed(seed, i);
      t.scen_seed = scen_seed;
      ArmWatchdog(20);
      RunResult rr = RunAny(t, prof, profile, tier);
      ArmWatchdog(0);
      if (verbose) HPrintf("%s", rr.decoded.c_str());
      if (!rr.violations.empty()) {
        std::string path = outdir + "/replay_" + profile + "_" + std::to_string(seed) + "_" + std::to_string(i) + ".json";
        WriteReplay(path, profile, tier, seed, i, t, rr, false);
      }
      PrintRunLine(i, rr, decoded_first && i == first);
    }
    return 0;
  }
  if (cmd == "replay" || cmd == "shrink") {
    std::string doc;
    if (!ReadAll(file.c_str(), &doc)) { fprintf(stderr, "cannot read %s\n", file.c_str()); return 2; }
    Tape t;
    if (!ParseTape(doc, &t)) { fprintf(stderr, "no tape in %s\n", file.c_str()); return 2; }
    profile = JsonStr(doc, "profile");
    tier = JsonStr(doc, "tier");
    Profile prof = GetProfile(profile, tier == "thorough");
    if (cmd == "replay") {
      ArmWatchdog(20);
      RunResult rr = RunAny(t, prof, profile, tier);
      ArmWatchdog(0);
      if (verbose) HPrintf("%s", rr.decoded.c_str());
      PrintRunLine(0, rr);
      return rr.violations.empty() ? 0 : 1;
    }
    std::string prop, cls;
    for (int i = 2; i < argc; i++) {
      if (!strcmp(argv[i], "--prop") && i + 1 < argc) prop = argv[i + 1];
      if (!strcmp(argv[i], "--cls") && i + 1 < argc) cls = argv[i + 1];
    }
    int reruns = 0;
    Tape m = Shrink(t, prof, profile, tier, prop, cls, 1500, &reruns);
    m.replay = true;
    RunResult rr = RunAny(m, prof, profile, tier);
    std::string out = file + ".min.json";
    WriteReplay(out, profile, tier, strtoull(JsonStr(doc, "seed").c_str(), nullptr, 10), 0, m, rr, true);
    HPrintf("{\"shrunk\":\"%s\",\"reruns\":%d,\"still\":%s}\n", out.c_str(), reruns, HasViolation(rr, prop, cls) ? "true" : "false");
    return 0;
  }
  fprintf(stderr, "unknown command %s\n", cmd.c_str());
  return 2;
}
