#include "kernel.h"
#include <string.h>
#include <stdlib.h>
using namespace sim;

struct H : SpawnHandler {
  ChildPlan OnSpawn(Kernel& k, const std::string& cmd, bool console) override {
    ChildPlan p;
    size_t o = cmd.find("-o ");
    std::string out = o == std::string::npos ? "" : cmd.substr(o + 3);
    ChildStep s1; s1.kind = ChildStep::kOutput; s1.at_ns = 1000000; s1.bytes = "hello from " + out + "\n";
    ChildStep s2; s2.kind = ChildStep::kEffect; s2.at_ns = 2000000;
    s2.fn = [out](Kernel& k, Child&) { if (!out.empty()) k.WriteFile(out, "X"); };
    ChildStep s3; s3.kind = ChildStep::kExit; s3.at_ns = 3000000; s3.status = cmd.find("FAIL") != std::string::npos ? (3 << 8) : 0;
    p.steps = {s1, s2, s3};
    return p;
  }
};

int main(int argc, char** argv) {
  GlobalInit();
  int n = argc > 1 ? atoi(argv[1]) : 1;
  for (int it = 0; it < n; it++) {
    Kernel k;
    Tape t; t.seed = 42 + it; k.tape = &t;
    k.MkdirP("/w");
    k.WriteFile("build.ninja",
      "rule cc\n  command = sim $in -o $out\n"
      "rule bad\n  command = sim FAIL -o $out\n"
      "build a.o: cc a.c\nbuild b.o: cc b.c\nbuild app: cc a.o b.o\nbuild x: bad a.c\ndefault app\n");
    k.WriteFile("a.c", "1"); k.WriteFile("b.c", "2");
    H h;
    const char* runs[][6] = {{"ninja", "-j4", nullptr}, {"ninja", "-j4", nullptr}, {"ninja", "x", nullptr}, {"ninja", "-t", "commands", nullptr}};
    for (auto& r : runs) {
      ProcSpec sp;
      for (int i = 0; r[i]; i++) sp.argv.push_back(r[i]);
      ProcResult res = k.RunNinja(sp, &h);
      if (n == 1) {
        HPrintf("--- end=%d exit=%d syscalls=%ld detail=%s\nstdout:\n%sstderr:\n%s", (int)res.end, res.exit_code,
                (long)res.nsyscalls, res.end_detail.c_str(), res.out.c_str(), res.err.c_str());
      }
    }
    if (n == 1) {
      std::string log; k.ReadFile(".ninja_log", &log);
      HPrintf("log:\n%s", log.c_str());
      for (auto& kv : k.fs.nodes) HPrintf("  %s (%zu bytes, mtime %ld)\n", kv.first.c_str(), kv.second->data.size(), (long)kv.second->mtime);
    }
  }
  return 0;
}
