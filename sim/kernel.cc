#include <iostream>
#include <streambuf>
#include <sys/syscall.h>
// SimOS kernel: processes, scheduler, file layer, pipes, signals, and the
// --wrap entry points the real ninja objects are linked against.
#include "kernel.h"

#include <assert.h>
#include <errno.h>
#include <fcntl.h>
#include <poll.h>
#include <spawn.h>
#include <stdarg.h>
#include <stdio_ext.h>
#include <stdlib.h>
#include <string.h>
#include <sys/ioctl.h>
#include <sys/mman.h>
#include <sys/stat.h>
#include <sys/time.h>
#include <sys/wait.h>
#include <ucontext.h>
#include <unistd.h>
#include <getopt.h>

#include <algorithm>
#include <array>
#include <exception>

#if defined(__SANITIZE_ADDRESS__)
#include <sanitizer/asan_interface.h>
#include <sanitizer/common_interface_defs.h>
#define SIM_ASAN 1
#else
#define SIM_ASAN 0
#define ASAN_UNPOISON_MEMORY_REGION(a, s) ((void)(a), (void)(s))
#endif

int ninja_main(int argc, char** argv);

namespace sim {
extern bool g_in_sim;
void ArenaInit();
void ArenaReset(bool descending);
void ResetNinjaGlobals();   // glue.cc (needs ninja headers)

FILE* g_real_stdout = nullptr;
static FILE* g_real_stdout_var = nullptr;  // value of `stdout` outside simulation
static FILE* g_real_stderr_var = nullptr;

// RAII: kernel code runs with malloc; restores the previous mode on exit.
struct KernelMode {
  bool saved;
  KernelMode() : saved(g_in_sim) { g_in_sim = false; }
  ~KernelMode() { g_in_sim = saved; }
};

void HPrintf(const char* fmt, ...) {
  KernelMode km;
  va_list ap;
  va_start(ap, fmt);
  vfprintf(g_real_stdout ? g_real_stdout : stdout, fmt, ap);
  va_end(ap);
}

uint64_t Hash64(const void* p, size_t n, uint64_t seed) {
  const unsigned char* c = static_cast<const unsigned char*>(p);
  uint64_t h = 0xcbf29ce484222325ull ^ (seed * 0x9e3779b97f4a7c15ull);
  for (size_t i = 0; i < n; i++) { h ^= c[i]; h *= 0x100000001b3ull; }
  h ^= h >> 32; h *= 0xd6e8feb86659fd93ull; h ^= h >> 32;
  return h;
}

uint32_t Tape::Raw(int stream) {
  size_t& p = pos[stream];
  std::vector<uint32_t>& v = rec[stream];
  if (p < v.size()) return v[p++];   // re-reading (probe runs rewind a stream)
  if (replay) { p++; return 0; }
  auto it = rng.find(stream);
  if (it == rng.end()) {
    uint64_t s = (stream == 0 && scen_seed ? scen_seed : seed) ^ (0xa0761d6478bd642full * (uint64_t)(stream + 1));
    it = rng.emplace(stream, Rng(s)).first;
  }
  uint32_t r = (uint32_t)(it->second.Next() >> 32);
  v.push_back(r);
  p++;
  return r;
}

FS FS::Clone() const {
  FS o;
  for (auto& kv : nodes) o.nodes[kv.first] = std::make_shared<Inode>(*kv.second);
  return o;
}

std::string NormPath(const std::string& abs) {
  std::vector<std::string> parts;
  size_t i = 0;
  while (i < abs.size()) {
    size_t j = abs.find('/', i);
    if (j == std::string::npos) j = abs.size();
    std::string c = abs.substr(i, j - i);
    if (c == "" || c == ".") {
    } else if (c == "..") {
      if (!parts.empty()) parts.pop_back();
    } else {
      parts.push_back(c);
    }
    i = j + 1;
  }
  std::string r;
  for (auto& c : parts) { r += "/"; r += c; }
  return r.empty() ? "/" : r;
}

std::string Kernel::Abs(const std::string& p) const {
  if (!p.empty() && p[0] == '/') return NormPath(p);
  return NormPath(cwd + "/" + p);
}

static std::string DirOf(const std::string& abs) {
  size_t s = abs.rfind('/');
  if (s == 0 || s == std::string::npos) return "/";
  return abs.substr(0, s);
}

// ------------------------------------------------------------------ process
struct Cookie;
struct Kernel::Proc {
  ProcSpec spec;
  ProcResult res;
  int64_t sysno = 0;
  int64_t file_writes = 0;
  bool doomed = false;
  ProcResult::End doom_kind = ProcResult::kCrashed;
  std::string doom_detail;
  int64_t start_ns = 0;

  struct Fd {
    enum Kind { kPipeR, kPipeW, kFifoR, kFifoW, kCookieFd };
    Kind kind;
    int pipe_id = -1;
    InodeP ino;
    std::string path;
    bool nonblock = false;
  };
  std::map<int, Fd> fds;
  int next_fd = 100;
  std::map<int, Pipe> pipes;
  int next_pipe = 1;
  std::map<int, Child> children;
  int next_pid = 5000;

  struct sigaction handlers[65];
  uint64_t blocked = 0, pending = 0;

  std::set<FILE*> files;             // open cookie FILEs (not std streams)
  std::map<FILE*, Cookie*> cookies;
  FILE* sim_stdout = nullptr;
  FILE* sim_stderr = nullptr;

  std::multimap<std::pair<int64_t, uint64_t>, std::function<void()>> events;
  uint64_t ev_seq = 0;
  std::map<const void*, std::vector<std::array<int, 3>>> spawn_actions;
  std::function<int()> body;
  std::vector<std::string> argv_store;
  std::vector<char*> argv_ptrs;
};

struct Cookie {
  Kernel* k;
  Kernel::Proc* p;
  InodeP ino;
  size_t pos = 0;
  bool append = false, readable = false, writable = false;
  int fd = -1;
  int std_which = 0;   // 1 stdout, 2 stderr
  std::string path;
};

static Kernel* g_k = nullptr;      // kernel whose process is alive
#define P (g_k->proc)

// contexts
static ucontext_t g_sched_ctx, g_proc_ctx;
static char* g_stack = nullptr;
static const size_t kStackSize = 32u << 20;
static const void* g_main_stack_bottom = nullptr;
static size_t g_main_stack_size = 0;

static void Fired(const char* what) { P->res.fired[what]++; }

bool g_live_trace = false;   // debugging aid: SIM_LIVE=1 prints every event to the real stderr as it happens
void Kernel::Trace(Ev::Kind kind, int a, int b, const std::string& s, const std::string& t) {
  if (!proc) return;
  Ev e;
  e.kind = kind; e.seq = ++seq; e.time = now; e.sysno = proc->sysno;
  e.a = a; e.b = b; e.s = s; e.t = t;
  proc->res.trace.push_back(std::move(e));
  if (g_live_trace) {
    const Ev& x = proc->res.trace.back(); char buf[512];
    int n = snprintf(buf, sizeof buf, "EV %lld t=%lld kind=%d a=%d b=%d s=%.200s t=%.60s\n", (long long)x.seq, (long long)x.time, (int)x.kind, x.a, x.b, x.s.c_str(), x.t.c_str());
    if (n > (int)sizeof buf) n = sizeof buf;
    syscall(SYS_write, 2, buf, (size_t)n);
  }
  if (on_event) on_event(proc->res.trace.back());
}

// ------------------------------------------------------------------ clock
static const int64_t kTick = 10000000;   // coarse mtime granule: 10 ms

void Kernel::NewTick() {
  if (coarse_clock) now = (now / kTick + 1) * kTick;
  else now += 1000;
}

int64_t Kernel::Stamp(bool force_new) {
  if (coarse_clock) {
    if (force_new) NewTick();
    int64_t t = now / kTick * kTick;
    if (t > last_issued) last_issued = t;
    return t;
  }
  now += 1000;
  last_issued = now;
  return now;
}

// ------------------------------------------------------------------ FS helpers
bool Kernel::ReadFile(const std::string& p, std::string* out) const {
  Inode* i = fs.Find(Abs(p));
  if (!i || i->kind != Inode::kFile) return false;
  *out = i->data;
  return true;
}

void Kernel::MkdirP(const std::string& p) {
  std::string a = Abs(p);
  if (a == "/") return;
  if (fs.Find(a)) return;
  MkdirP(DirOf(a));
  InodeP d = std::make_shared<Inode>();
  d->kind = Inode::kDir;
  d->mtime = Stamp(false);
  fs.nodes[a] = d;
}

void Kernel::WriteFile(const std::string& p, const std::string& data, bool external_edit) {
  std::string a = Abs(p);
  MkdirP(DirOf(a));
  InodeP& n = fs.nodes[a];
  bool existed = (bool)n;
  int64_t prev = existed ? n->mtime : 0;
  if (!n) n = std::make_shared<Inode>();
  n->kind = Inode::kFile;
  n->data = data;
  if (external_edit) {
    // strictly later than every timestamp issued so far (rule 1)
    if (coarse_clock) { if (now / kTick * kTick <= last_issued) NewTick(); }
    n->mtime = Stamp(false);
  } else {
    int64_t t = Stamp(false);
    if (existed && t <= prev) { NewTick(); t = Stamp(false); }   // rule 2
    n->mtime = t;
  }
}

// write-to-temporary-and-rename: the path gets a NEW inode; descriptors that are open on
// the old one keep writing into a file nobody can see any more
void Kernel::ReplaceFile(const std::string& p, const std::string& data) {
  std::string a = Abs(p);
  MkdirP(DirOf(a));
  InodeP n = std::make_shared<Inode>();
  n->kind = Inode::kFile;
  n->data = data;
  n->mtime = Stamp(false);
  fs.nodes[a] = n;
}

void Kernel::Touch(const std::string& p, bool external_edit) {
  std::string d;
  ReadFile(p, &d);
  WriteFile(p, d, external_edit);
}

bool Kernel::Remove(const std::string& p) {
  return fs.nodes.erase(Abs(p)) > 0;
}

void Kernel::MkFifo(const std::string& p, const std::string& tokens) {
  std::string a = Abs(p);
  MkdirP(DirOf(a));
  InodeP n = std::make_shared<Inode>();
  n->kind = Inode::kFifo;
  n->data = tokens;
  n->mtime = Stamp(false);
  fs.nodes[a] = n;
}

void Kernel::AddActor(int64_t delay_ns, std::function<void(Kernel&)> fn) {
  if (!proc) return;
  Kernel* self = this;
  proc->events.emplace(std::make_pair(now + delay_ns, ++proc->ev_seq), [self, fn]() { fn(*self); });
}

static void ChildSignal(Child& c, int sig, bool group);
// ^C and a hang-up come from the terminal: they reach the whole foreground process group,
// that is ninja and the console-pool command that shares its terminal (other commands run
// in process groups of their own)
static void SignalConsoleChildren(Kernel* k, int signo) {
  if (signo != SIGINT && signo != SIGHUP) return;
  for (auto& kv : k->proc->children) {
    Child& c = kv.second;
    if (!c.console || c.exited) continue;
    k->Trace(Ev::kKill, c.pid, signo, "tty");
    ChildSignal(c, signo, true);
  }
}

void Kernel::SendSignal(int signo) {
  if (!proc) return;
  proc->pending |= 1ull << signo;
  Trace(Ev::kSignal, signo, 0, "sent");
  SignalConsoleChildren(this, signo);
}

// ------------------------------------------------------------------ leaving a process
[[noreturn]] static void SwitchOut() {
  g_in_sim = false;
#if SIM_ASAN
  __sanitizer_start_switch_fiber(nullptr, g_main_stack_bottom, g_main_stack_size);
#endif
  setcontext(&g_sched_ctx);
  abort();
}

static void Doom(ProcResult::End kind, const std::string& detail) {
  if (P->doomed) return;
  P->doomed = true;
  P->doom_kind = kind;
  P->doom_detail = detail;
}

[[noreturn]] static void LeaveDoomed() {
  P->res.end = P->doom_kind;
  P->res.end_detail = P->doom_detail;
  SwitchOut();
}

// Called by the arena when one simulated process went past its memory budget.
void SimArenaExhausted() {
  if (g_k && g_k->proc && g_in_sim) {
    KernelMode km;
    Doom(ProcResult::kTerminate, "memory budget exhausted: the process allocated more than 256 MiB (runaway allocation)");
    LeaveDoomed();
  }
  const char msg[] = "simninja: arena exhausted outside a simulated process\n";
  if (write(2, msg, sizeof msg - 1)) {}
  ::syscall(SYS_exit_group, 2);
  __builtin_unreachable();
}

struct Sys { bool doomed; int inject; };
static int DeliverableSignal(uint64_t mask_blocked);
static bool DeliverSignals(uint64_t mask_blocked, bool can_leave);
static void RunDueEvents();

// Every wrapper calls this first.  `cookie` callers cannot leave the process
// (they run inside glibc stdio); they get doomed=true and must do nothing.
static Sys SysEnter(char kind, bool cookie = false) {
  Kernel::Proc* p = P;
  Sys r = {false, 0};
  if (p->doomed) {
    if (!cookie) LeaveDoomed();
    r.doomed = true;
    return r;
  }
  int64_t idx = p->sysno++;
  // a syscall takes simulated time (a poll much more than a stat), and the
  // children run concurrently with ninja: whatever became due happens now
  g_k->now += kind == 'L' ? 20000 : 200;
  RunDueEvents();
  if (p->spec.record_stats) p->res.sys_kinds.emplace_back(idx, kind);
  if (idx >= p->spec.max_syscalls) Doom(ProcResult::kBudget, "syscall budget exhausted");
  const FaultPlan& f = p->spec.faults;
  if (idx == f.crash_at) {
    Fired("crash");
    g_k->Trace(Ev::kFault, 0, 0, "crash");
    Doom(ProcResult::kCrashed, "crash before syscall");
  }
  for (auto& s : f.signals)
    if (s.first == idx) {
      p->pending |= 1ull << s.second;
      Fired("signal_at_syscall");
      g_k->Trace(Ev::kSignal, s.second, 0, "pending");
      SignalConsoleChildren(g_k, s.second);
    }
  if (!p->doomed && DeliverableSignal(p->blocked)) DeliverSignals(p->blocked, !cookie);
  if (p->doomed) {
    if (!cookie) LeaveDoomed();
    r.doomed = true;
    return r;
  }
  auto ie = f.io_errors.find(idx);
  if (ie != f.io_errors.end()) r.inject = ie->second;
  return r;
}

static bool Buggify(int per_mille) {
  if (per_mille <= 0 || !g_k->tape) return false;
  // value 0 (an exhausted, shrunk tape) means: the unusual thing does not happen
  return g_k->tape->Choice(P->spec.faults.stream, 1000) >= (uint32_t)(1000 - per_mille);
}

// ------------------------------------------------------------------ events / blocking
static void ScheduleChild(Kernel* k, int pid);

static bool RunNextEvent() {
  Kernel::Proc* p = P;
  if (p->events.empty()) return false;
  auto first = p->events.begin();
  int64_t t = first->first.first;
  // all events at the earliest instant are enabled; the tape picks one
  size_t n = 0;
  for (auto it = first; it != p->events.end() && it->first.first == t && n < 16; ++it) n++;
  size_t pick = n > 1 && g_k->tape ? g_k->tape->Choice(p->spec.faults.stream, (uint32_t)n) : 0;
  auto it = first;
  std::advance(it, pick);
  std::function<void()> fn = std::move(it->second);
  p->events.erase(it);
  if (t > g_k->now) g_k->now = t;
  fn();
  return true;
}

static void RunDueEvents() {
  Kernel::Proc* p = P;
  int guard = 0;
  while (!p->events.empty() && p->events.begin()->first.first <= g_k->now && guard++ < 1000) RunNextEvent();
}

static int DeliverableSignal(uint64_t mask_blocked) {
  uint64_t d = P->pending & ~mask_blocked;
  if (!d) return 0;
  for (int s = 1; s < 64; s++) if (d & (1ull << s)) return s;
  return 0;
}

// Runs the handler of every pending signal not blocked by `mask_blocked`.
static bool DeliverSignals(uint64_t mask_blocked, bool can_leave) {
  bool any = false;
  int s;
  while ((s = DeliverableSignal(mask_blocked)) != 0) {
    P->pending &= ~(1ull << s);
    struct sigaction& sa = P->handlers[s];
    g_k->Trace(Ev::kSignal, s, 0, "delivered");
    if (sa.sa_flags & SA_SIGINFO) {
      if (sa.sa_sigaction) {
        bool saved = g_in_sim; g_in_sim = true;
        sa.sa_sigaction(s, nullptr, nullptr);
        g_in_sim = saved;
        any = true;
      }
    } else if (sa.sa_handler == SIG_IGN) {
    } else if (sa.sa_handler == SIG_DFL) {
      if (s == SIGCHLD) continue;
      // default action of INT/TERM/HUP: the process dies
      P->res.exit_code = 128 + s;
      Fired("killed_by_default_action");
      Doom(ProcResult::kCrashed, "killed by signal (default action)");
      if (can_leave) LeaveDoomed();
      return any;
    } else {
      bool saved = g_in_sim; g_in_sim = true;
      sa.sa_handler(s);
      g_in_sim = saved;
      any = true;
    }
  }
  return any;
}

// ------------------------------------------------------------------ children
static void ChildCloseOutput(Child& c) {
  if (c.pipe_id >= 0) {
    auto it = P->pipes.find(c.pipe_id);
    if (it != P->pipes.end()) it->second.writers--;
    c.pipe_id = -1;
  }
}

static void ChildDie(Child& c, int status) {
  if (c.exited) return;
  ChildCloseOutput(c);
  c.exited = true;
  c.status = status;
  P->pending |= 1ull << SIGCHLD;
  g_k->Trace(Ev::kChildExit, c.pid, status, c.cmd);
}

static void ChildRunStep(int pid, size_t idx) {
  auto it = P->children.find(pid);
  if (it == P->children.end()) return;
  Child& c = it->second;
  // steps of one child keep their order even when their events tie in time
  while ((!c.exited || c.survivor) && c.next_step <= idx && c.next_step < c.plan.steps.size()) {
  size_t cur = c.next_step++;
  ChildStep& st = c.plan.steps[cur];
  switch (st.kind) {
    case ChildStep::kOutput:
      if (c.console) {
        P->res.tty += st.bytes;
        g_k->Trace(Ev::kChildTty, c.pid, 0, st.bytes);
      } else if (c.pipe_id >= 0) {
        P->pipes[c.pipe_id].buf += st.bytes;
      }
      break;
    case ChildStep::kEffect:
      if (st.fn) st.fn(*g_k, c);
      break;
    case ChildStep::kClosePipe:
      ChildCloseOutput(c);
      break;
    case ChildStep::kExit:
      if (c.survivor) {   // the rest of the command ends; its shell was reaped long ago
        c.survivor = false;
        ChildCloseOutput(c);
        g_k->Trace(Ev::kChildExit, c.pid, st.status, c.cmd);
      } else {
        ChildDie(c, st.status);
      }
      break;
  }
  }
}

static void ScheduleChild(Kernel* k, int pid) {
  Child& c = k->proc->children[pid];
  for (size_t i = 0; i < c.plan.steps.size(); i++) {
    int64_t t = c.start_time + c.plan.steps[i].at_ns;
    k->proc->events.emplace(std::make_pair(t, ++k->proc->ev_seq), [pid, i]() { ChildRunStep(pid, i); });
  }
}

// kill(2) semantics for a scripted child
static void ChildSignal(Child& c, int sig, bool group) {
  if (c.exited) return;
  if (sig == 0) return;
  int mode = c.plan.on_signal;
  if (sig == SIGKILL) mode = 0;
  if (!group && c.plan.multi_process) {
    // only the shell got the signal: it dies and can be reaped, the program goes on and
    // finishes whenever it finishes (no kChildExit yet: the command is still running)
    c.exited = true;
    c.status = sig & 0x7f;
    c.survivor = true;
    P->pending |= 1ull << SIGCHLD;
    return;
  }
  if (mode == 2) return;  // ignores the signal
  c.killed = true;
  if (mode == 1) {
    // had already started writing: the first pending effect runs (it sees
    // c.killed and leaves partial results), then the child dies
    for (size_t i = c.next_step; i < c.plan.steps.size(); i++)
      if (c.plan.steps[i].kind == ChildStep::kEffect) {
        if (c.plan.steps[i].fn) c.plan.steps[i].fn(*g_k, c);
        break;
      }
  }
  c.next_step = c.plan.steps.size();
  ChildDie(c, sig & 0x7f);  // WIFSIGNALED encoding
}

// After ninja is gone: children either vanish or run to completion.
static void FinishOrphans(Kernel* k, bool finish) {
  Kernel::Proc* p = k->proc;
  if (!finish) { p->events.clear(); return; }
  int guard = 0;
  while (!p->events.empty() && guard++ < 100000) RunNextEvent();
}

// ------------------------------------------------------------------ cookies
static ssize_t CookieRead(void* cv, char* buf, size_t n) {
  KernelMode km;
  Cookie* c = static_cast<Cookie*>(cv);
  Sys s = SysEnter('r', true);
  if (s.doomed) return 0;
  if (s.inject) { Fired("io_error_read"); errno = EIO; return -1; }
  if (!c->ino || c->pos >= c->ino->data.size()) return 0;
  size_t avail = c->ino->data.size() - c->pos;
  if (n > avail) n = avail;
  if (n > 1 && Buggify(P->spec.faults.pm_short_read)) { n = 1 + n / 2; Fired("short_file_read"); }
  memcpy(buf, c->ino->data.data() + c->pos, n);
  c->pos += n;
  return (ssize_t)n;
}

static ssize_t CookieWrite(void* cv, const char* buf, size_t n) {
  KernelMode km;
  Cookie* c = static_cast<Cookie*>(cv);
  Kernel::Proc* p = P;
  bool is_std = c->std_which != 0;
  int64_t idx = p->sysno;
  Sys s = SysEnter(is_std ? 'o' : 'w', true);
  if (s.doomed) return (ssize_t)n;
  if (is_std) {
    std::string bytes(buf, n);
    if (c->std_which == 1) {
      p->res.out += bytes;
      p->res.tty += bytes;
      g_k->Trace(Ev::kStdout, 0, 0, bytes);
    } else {
      p->res.err += bytes;
      g_k->Trace(Ev::kStderr, 0, 0, bytes);
    }
    return (ssize_t)n;
  }
  size_t keep = n;
  bool torn = false, fail = false;
  int64_t wno = p->file_writes++;
  if (wno == p->spec.faults.crash_write_nth) {
    Fired("crash");
    g_k->Trace(Ev::kFault, 0, 0, "crash", c->path);
    Doom(ProcResult::kCrashed, "crash before file write");
    return (ssize_t)n;
  }
  if (idx == p->spec.faults.torn_at || wno == p->spec.faults.torn_write_nth) {
    keep = n ? p->spec.faults.torn_keep % n : 0;
    torn = true;
    Fired("torn_write");
    g_k->Trace(Ev::kFault, (int)keep, (int)n, "torn_write", c->path);
  } else if (s.inject) {
    keep = n ? (size_t)(Hash64(&idx, sizeof idx) % n) : 0;
    fail = true;
    Fired("io_error_write");
    g_k->Trace(Ev::kFault, (int)keep, (int)n, "enospc", c->path);
  }
  if (c->ino) {
    std::string& d = c->ino->data;
    if (c->append) c->pos = d.size();
    if (c->pos > d.size()) d.resize(c->pos, '\0');
    d.replace(c->pos, std::min(keep, d.size() - c->pos), buf, keep);
    c->pos += keep;
    int64_t t = g_k->Stamp(false);
    bool is_lock = c->path.size() >= 11 && c->path.compare(c->path.size() - 11, 11, ".ninja_lock") == 0;
    if (t <= c->ino->mtime && !is_lock && g_k->coarse_clock) { g_k->NewTick(); t = g_k->Stamp(false); }
    c->ino->mtime = t;
    g_k->Trace(Ev::kFsWrite, (int)keep, 0, c->path);
  }
  if (torn) {
    Doom(ProcResult::kCrashed, "torn write");
    return (ssize_t)n;
  }
  if (fail) { errno = ENOSPC; return 0; }
  return (ssize_t)n;
}

static int CookieSeek(void* cv, off64_t* off, int whence) {
  KernelMode km;
  Cookie* c = static_cast<Cookie*>(cv);
  if (c->std_which) { errno = ESPIPE; return -1; }
  int64_t base = 0;
  if (whence == SEEK_CUR) base = (int64_t)c->pos;
  else if (whence == SEEK_END) base = c->ino ? (int64_t)c->ino->data.size() : 0;
  int64_t np = base + *off;
  if (np < 0) { errno = EINVAL; return -1; }
  c->pos = (size_t)np;
  *off = np;
  return 0;
}

static int CookieClose(void* cv) {
  KernelMode km;
  Cookie* c = static_cast<Cookie*>(cv);
  if (c->p && c->fd >= 0) c->p->fds.erase(c->fd);
  delete c;
  return 0;
}

static FILE* MakeCookieFile(Cookie* c, const char* mode) {
  cookie_io_functions_t io = {CookieRead, CookieWrite, CookieSeek, CookieClose};
  return fopencookie(c, mode, io);
}

// ------------------------------------------------------------------ running a process
static void ProcEntry() {
#if SIM_ASAN
  __sanitizer_finish_switch_fiber(nullptr, &g_main_stack_bottom, &g_main_stack_size);
#endif
  Kernel::Proc* p = P;
  g_in_sim = true;
  int rc = p->body();
  // returned from main(): same as exit(rc)
  exit(rc);
}

static void TerminateHandler() {
  if (g_k && g_k->proc) {
    KernelMode km;
    Doom(ProcResult::kTerminate, "std::terminate (uncaught exception)");
    LeaveDoomed();
  }
  fprintf(stderr, "simninja: std::terminate in harness code\n");
  _exit(3);
}

int RealSigaction(int, const struct sigaction*, struct sigaction*);
static void SegvHandler(int sig, siginfo_t* si, void*) {
  char buf[160];
  int n = snprintf(buf, sizeof buf, "WORKER-CRASH signal=%d addr=%p in_process=%d\n", sig,
                   si ? si->si_addr : nullptr, (g_k && g_k->proc) ? 1 : 0);
  if (write(2, buf, n)) {}
  _exit(70);
}

// Per-run CPU watchdog: simulated code that loops without making a syscall
// (e.g. a corrupted container in ninja) cannot be stopped by the syscall budget.
static void WatchdogHandler(int) {
  const char msg[] = "WORKER-CRASH watchdog: run exceeded its CPU budget (loop without syscalls)\n";
  if (write(2, msg, sizeof msg - 1)) {}
  _exit(71);
}
void ArmWatchdog(int seconds) {
  struct itimerval it;
  memset(&it, 0, sizeof it);
  it.it_value.tv_sec = seconds;
  setitimer(ITIMER_VIRTUAL, &it, nullptr);
}

// std::cout / std::cerr are bound to the C stdout/stderr OBJECTS when the library starts,
// not to the variables the simulation re-points at its cookie streams: ninja code that uses
// iostreams (`-t missingdeps`) would write past the simulated process into the worker's own
// stdout.  These buffers forward to whatever `stdout` / `stderr` currently are.
namespace {
struct ForwardBuf : std::streambuf {
  bool err;
  explicit ForwardBuf(bool e) : err(e) {}
  int_type overflow(int_type c) override {
    if (c != traits_type::eof()) { char ch = (char)c; fwrite(&ch, 1, 1, err ? stderr : stdout); }
    return c;
  }
  std::streamsize xsputn(const char* s, std::streamsize n) override { return (std::streamsize)fwrite(s, 1, (size_t)n, err ? stderr : stdout); }
  int sync() override { fflush(err ? stderr : stdout); return 0; }
};
// (never destroyed: the library flushes std::cout once more when the process exits)
ForwardBuf* g_cout_buf = new ForwardBuf(false);
ForwardBuf* g_cerr_buf = new ForwardBuf(true);
}  // namespace

void GlobalInit() {
  static bool done = false;
  if (done) return;
  done = true;
  ArenaInit();
  g_real_stdout = fdopen(dup(1), "w");
  setvbuf(g_real_stdout, nullptr, _IOLBF, 1 << 16);
  g_real_stdout_var = stdout;
  g_real_stderr_var = stderr;
  std::cout.rdbuf(g_cout_buf);
  std::cerr.rdbuf(g_cerr_buf);
  g_stack = static_cast<char*>(mmap(nullptr, kStackSize + 4096, PROT_READ | PROT_WRITE,
                                    MAP_PRIVATE | MAP_ANONYMOUS | MAP_NORESERVE, -1, 0));
  mprotect(g_stack, 4096, PROT_NONE);
  g_stack += 4096;
  std::set_terminate(TerminateHandler);
  {
    struct sigaction wa; memset(&wa, 0, sizeof wa);
    wa.sa_handler = WatchdogHandler;
    RealSigaction(SIGVTALRM, &wa, nullptr);
  }
#if !SIM_ASAN
  static char alt[1 << 16];
  stack_t ss; ss.ss_sp = alt; ss.ss_size = sizeof alt; ss.ss_flags = 0;
  sigaltstack(&ss, nullptr);
  struct sigaction sa; memset(&sa, 0, sizeof sa);
  sa.sa_sigaction = SegvHandler; sa.sa_flags = SA_SIGINFO | SA_ONSTACK;
  RealSigaction(SIGSEGV, &sa, nullptr);
  RealSigaction(SIGBUS, &sa, nullptr);
  RealSigaction(SIGFPE, &sa, nullptr);
  RealSigaction(SIGILL, &sa, nullptr);
#else
  (void)SegvHandler;
#endif
  // warm up lazily initialised libstdc++/glibc state outside the arena
  { std::string s = std::to_string(12345.5); (void)s; char b[64]; snprintf(b, sizeof b, "%f %d", 1.5, 3); }
}

static ProcResult RunProcess(Kernel* k, const ProcSpec& spec, SpawnHandler* h, std::function<int()> body,
                             bool reset_globals) {
  GlobalInit();
  assert(!k->proc && !g_k);
  Kernel::Proc* p = new Kernel::Proc;
  p->spec = spec;
  memset(p->handlers, 0, sizeof p->handlers);
  p->body = std::move(body);
  k->proc = p;
  k->handler = h;
  g_k = k;
  // every invocation starts in a new tick (rule 3)
  k->NewTick();
  p->start_ns = k->now;
  for (auto& a : k->start_actors) k->AddActor(a.at_ns, a.fn);
  k->start_actors.clear();
  uint32_t order = k->tape ? k->tape->Choice(spec.faults.stream, 2) : 0;
  ArenaReset(order == 1);
  if (reset_globals) ResetNinjaGlobals();
  optind = 0;  // glibc: re-initialise getopt

  // std streams
  Cookie* co = new Cookie; co->k = k; co->p = p; co->std_which = 1; co->writable = true;
  Cookie* ce = new Cookie; ce->k = k; ce->p = p; ce->std_which = 2; ce->writable = true;
  p->sim_stdout = MakeCookieFile(co, "w");
  p->sim_stderr = MakeCookieFile(ce, "w");
  setvbuf(p->sim_stderr, nullptr, _IONBF, 0);
  p->cookies[p->sim_stdout] = co;
  p->cookies[p->sim_stderr] = ce;
  stdout = p->sim_stdout;
  stderr = p->sim_stderr;

  ASAN_UNPOISON_MEMORY_REGION(g_stack, kStackSize);
  getcontext(&g_proc_ctx);
  g_proc_ctx.uc_stack.ss_sp = g_stack;
  g_proc_ctx.uc_stack.ss_size = kStackSize;
  g_proc_ctx.uc_link = nullptr;
  makecontext(&g_proc_ctx, ProcEntry, 0);
#if SIM_ASAN
  void* fake = nullptr;
  __sanitizer_start_switch_fiber(&fake, g_stack, kStackSize);
#endif
  swapcontext(&g_sched_ctx, &g_proc_ctx);
#if SIM_ASAN
  __sanitizer_finish_switch_fiber(fake, nullptr, nullptr);
#endif
  g_in_sim = false;

  // ---- the process is over; only durable state survives
  stdout = g_real_stdout_var;
  stderr = g_real_stderr_var;
  bool crashed = p->res.end != ProcResult::kExit;
  // what the dead process left open: discard unflushed bytes, close
  std::vector<FILE*> open(p->files.begin(), p->files.end());
  open.push_back(p->sim_stdout);
  open.push_back(p->sim_stderr);
  p->doomed = true;  // cookie callbacks triggered by fclose must do nothing
  for (FILE* f : open) { __fpurge(f); fclose(f); }
  p->doomed = false;
  if (k->on_proc_exit) k->on_proc_exit();
  bool finish = crashed ? spec.faults.orphans_finish : true;
  if (p->res.end == ProcResult::kHang || p->res.end == ProcResult::kBudget) finish = false;
  FinishOrphans(k, finish);
  p->res.nsyscalls = p->sysno;
  p->res.sim_ns = k->now - p->start_ns;
  k->Trace(Ev::kProcEnd, p->res.exit_code, (int)p->res.end, p->res.end_detail);
  ProcResult r = std::move(p->res);
  k->proc = nullptr;
  k->handler = nullptr;
  g_k = nullptr;
  delete p;
  return r;
}

ProcResult Kernel::RunNinja(const ProcSpec& spec, SpawnHandler* h) {
  Kernel* self = this;
  return RunProcess(this, spec, h, [self]() {
    Kernel::Proc* p = self->proc;
    bool saved = g_in_sim; g_in_sim = false;
    p->argv_store = p->spec.argv;
    p->argv_ptrs.clear();
    for (auto& s : p->argv_store) p->argv_ptrs.push_back(const_cast<char*>(s.c_str()));
    p->argv_ptrs.push_back(nullptr);
    g_in_sim = saved;
    return ninja_main((int)p->argv_store.size(), p->argv_ptrs.data());
  }, true);
}

ProcResult Kernel::RunFunction(const ProcSpec& spec, std::function<int()> body) {
  return RunProcess(this, spec, nullptr, std::move(body), true);
}

// exit(): flush what glibc would flush, then leave.
[[noreturn]] static void DoExit(int code, bool flush) {
  Kernel::Proc* p = P;
  if (flush) {
    std::vector<FILE*> open(p->files.begin(), p->files.end());
    open.push_back(p->sim_stdout);
    open.push_back(p->sim_stderr);
    for (FILE* f : open) fflush(f);
  }
  if (p->doomed) LeaveDoomed();
  p->res.end = ProcResult::kExit;
  p->res.exit_code = code & 0xff;
  SwitchOut();
}

}  // namespace sim

// ====================================================================== wrappers
using namespace sim;

#define REAL(name) __real_##name
extern "C" {
FILE* REAL(fopen)(const char*, const char*);
int REAL(fileno)(FILE*);
int REAL(stat)(const char*, struct stat*);
int REAL(stat64)(const char*, struct stat64*);
int REAL(fstat)(int, struct stat*);
int REAL(fstat64)(int, struct stat64*);
int REAL(mkdir)(const char*, mode_t);
int REAL(remove)(const char*);
int REAL(unlink)(const char*);
int REAL(rename)(const char*, const char*);
int REAL(truncate)(const char*, off_t);
int REAL(chown)(const char*, uid_t, gid_t);
int REAL(open)(const char*, int, ...);
int REAL(close)(int);
ssize_t REAL(read)(int, void*, size_t);
ssize_t REAL(write)(int, const void*, size_t);
int REAL(fcntl)(int, int, ...);
char* REAL(getcwd)(char*, size_t);
int REAL(chdir)(const char*);
int REAL(pipe)(int[2]);
int REAL(posix_spawn)(pid_t*, const char*, const posix_spawn_file_actions_t*, const posix_spawnattr_t*,
                      char* const[], char* const[]);
int REAL(posix_spawn_file_actions_adddup2)(posix_spawn_file_actions_t*, int, int);
int REAL(posix_spawn_file_actions_addclose)(posix_spawn_file_actions_t*, int);
int REAL(posix_spawn_file_actions_addopen)(posix_spawn_file_actions_t*, int, const char*, int, mode_t);
pid_t REAL(waitpid)(pid_t, int*, int);
int REAL(kill)(pid_t, int);
pid_t REAL(getpid)(void);
void REAL(exit)(int) __attribute__((noreturn));
void REAL(_exit)(int) __attribute__((noreturn));
void REAL(abort)(void) __attribute__((noreturn));
void REAL(__assert_fail)(const char*, const char*, unsigned, const char*) __attribute__((noreturn));
int REAL(ppoll)(struct pollfd*, nfds_t, const struct timespec*, const sigset_t*);
int REAL(sigaction)(int, const struct sigaction*, struct sigaction*);
int REAL(sigprocmask)(int, const sigset_t*, sigset_t*);
int REAL(sigpending)(sigset_t*);
int REAL(isatty)(int);
int REAL(ioctl)(int, unsigned long, ...);
char* REAL(getenv)(const char*);
int REAL(getloadavg)(double[], int);
int64_t REAL(_Z13GetTimeMillisv)(void);
int REAL(_Z17GetProcessorCountv)(void);
}

namespace sim {
int RealSigaction(int s, const struct sigaction* a, struct sigaction* o) { return REAL(sigaction)(s, a, o); }
}

static uint64_t SetToMask(const sigset_t* s) {
  uint64_t m = 0;
  for (int i = 1; i < 64; i++) if (sigismember(s, i) == 1) m |= 1ull << i;
  return m;
}
static void MaskToSet(uint64_t m, sigset_t* s) {
  sigemptyset(s);
  for (int i = 1; i < 64; i++) if (m & (1ull << i)) sigaddset(s, i);
}

static void FillStat(const Inode* n, struct stat* st) {
  memset(st, 0, sizeof *st);
  st->st_mode = n->kind == Inode::kDir ? (S_IFDIR | 0755) : n->kind == Inode::kFifo ? (S_IFIFO | 0644) : (S_IFREG | 0644);
  st->st_size = n->kind == Inode::kFile ? (off_t)n->data.size() : 0;
  st->st_mtim.tv_sec = n->mtime / 1000000000ll;
  st->st_mtim.tv_nsec = n->mtime % 1000000000ll;
  st->st_uid = 1000; st->st_gid = 1000; st->st_nlink = 1;
}

// A path component that is a regular file makes the lookup fail with ENOTDIR.
static int LookupErrno(Kernel* k, const std::string& abs) {
  std::string d = abs;
  while (d != "/") {
    d = d.substr(0, d.rfind('/'));
    if (d.empty()) d = "/";
    Inode* n = k->fs.Find(d);
    if (d == "/") break;
    if (n && n->kind != Inode::kDir) return ENOTDIR;
  }
  return ENOENT;
}

static bool ParentIsDir(Kernel* k, const std::string& abs) {
  std::string d = abs.substr(0, abs.rfind('/'));
  if (d.empty()) return true;
  Inode* n = k->fs.Find(d);
  return n && n->kind == Inode::kDir;
}

static int SimStat(const char* path, struct stat* st) {
  KernelMode km;
  Sys s = SysEnter('s');
  if (s.inject) { Fired("io_error_stat"); g_k->Trace(Ev::kFault, 0, 0, "eio_stat", path); errno = EIO; return -1; }
  std::string a = g_k->Abs(path);
  Inode* n = g_k->fs.Find(a);
  if (!n) { errno = LookupErrno(g_k, a); return -1; }
  FillStat(n, st);
  return 0;
}

extern "C" {

int __wrap_stat(const char* path, struct stat* st) {
  if (!g_in_sim) return REAL(stat)(path, st);
  return SimStat(path, st);
}
int __wrap_stat64(const char* path, struct stat64* st) {
  if (!g_in_sim) return REAL(stat64)(path, st);
  return SimStat(path, reinterpret_cast<struct stat*>(st));
}

static int SimFstat(int fd, struct stat* st) {
  KernelMode km;
  SysEnter('f');
  auto it = P->fds.find(fd);
  if (it == P->fds.end()) { errno = EBADF; return -1; }
  Kernel::Proc::Fd& f = it->second;
  if (f.ino) { FillStat(f.ino.get(), st); return 0; }
  memset(st, 0, sizeof *st);
  st->st_mode = S_IFIFO | 0600;
  return 0;
}
int __wrap_fstat(int fd, struct stat* st) {
  if (!g_in_sim) return REAL(fstat)(fd, st);
  return SimFstat(fd, st);
}
int __wrap_fstat64(int fd, struct stat64* st) {
  if (!g_in_sim) return REAL(fstat64)(fd, st);
  return SimFstat(fd, reinterpret_cast<struct stat*>(st));
}

FILE* __wrap_fopen(const char* path, const char* mode) {
  if (!g_in_sim) return REAL(fopen)(path, mode);
  KernelMode km;
  Sys s = SysEnter('O');
  Kernel* k = g_k;
  std::string a = k->Abs(path);
  bool rd = mode[0] == 'r', wr = mode[0] == 'w', ap = mode[0] == 'a';
  if (s.inject) {
    int e = s.inject == EMFILE ? EMFILE : EACCES;
    Fired("io_error_fopen"); k->Trace(Ev::kFault, e, 0, "fopen_fail", a);
    errno = e; return nullptr;
  }
  Inode* n = k->fs.Find(a);
  if (n && n->kind == Inode::kDir) { errno = EISDIR; return nullptr; }
  if (rd) {
    if (!n) { errno = LookupErrno(k, a); return nullptr; }
    k->Trace(Ev::kOpenRead, 0, 0, a);
  } else {
    if (!ParentIsDir(k, a)) { errno = LookupErrno(k, a); if (errno == ENOENT) errno = ENOENT; return nullptr; }
    if (!n) {
      InodeP in = std::make_shared<Inode>();
      in->kind = Inode::kFile;
      in->mtime = k->Stamp(false);
      k->fs.nodes[a] = in;
      k->Trace(Ev::kFsCreate, 0, 0, a);
    } else if (wr) {
      n->data.clear();
      int64_t t = k->Stamp(false);
      bool is_lock = a.size() >= 11 && a.compare(a.size() - 11, 11, ".ninja_lock") == 0;
      if (t <= n->mtime && !is_lock && k->coarse_clock) { k->NewTick(); t = k->Stamp(false); }
      n->mtime = t;
      k->Trace(Ev::kFsTruncate, 0, 0, a);
    }
  }
  Cookie* c = new Cookie;
  c->k = k; c->p = P; c->ino = k->fs.nodes[a]; c->path = a;
  c->append = ap; c->readable = rd; c->writable = !rd;
  c->pos = 0;
  c->fd = P->next_fd++;
  Kernel::Proc::Fd fd; fd.kind = Kernel::Proc::Fd::kCookieFd; fd.ino = c->ino; fd.path = a;
  P->fds[c->fd] = fd;
  FILE* f = MakeCookieFile(c, mode);
  P->files.insert(f);
  P->cookies[f] = c;
  return f;
}

// fclose is not wrapped (the cookie close callback does the work) but the
// kernel must forget the FILE; ninja calls fclose through this wrapper.
int __real_fclose(FILE*);
int __wrap_fclose(FILE* f) {
  if (!g_in_sim) return __real_fclose(f);
  {
    KernelMode km;
    SysEnter('c');
    P->files.erase(f);
    P->cookies.erase(f);
  }
  return __real_fclose(f);   // flushes through the cookie (may be a torn write)
}

int __wrap_fileno(FILE* f) {
  if (!g_in_sim) return REAL(fileno)(f);
  KernelMode km;
  auto it = P->cookies.find(f);
  if (it == P->cookies.end()) return REAL(fileno)(f);
  if (it->second->std_which) return it->second->std_which;
  return it->second->fd;
}

int __wrap_mkdir(const char* path, mode_t m) {
  if (!g_in_sim) return REAL(mkdir)(path, m);
  KernelMode km;
  Sys s = SysEnter('m');
  std::string a = g_k->Abs(path);
  if (s.inject) { Fired("io_error_mkdir"); g_k->Trace(Ev::kFault, 0, 0, "mkdir_fail", a); errno = EACCES; return -1; }
  if (g_k->fs.Find(a)) { errno = EEXIST; return -1; }
  if (!ParentIsDir(g_k, a)) { errno = LookupErrno(g_k, a); return -1; }
  InodeP d = std::make_shared<Inode>();
  d->kind = Inode::kDir;
  d->mtime = g_k->Stamp(false);
  g_k->fs.nodes[a] = d;
  g_k->Trace(Ev::kFsMkdir, 0, 0, a);
  return 0;
}

static int SimRemove(const char* path, bool allow_dir) {
  KernelMode km;
  Sys s = SysEnter('u');
  std::string a = g_k->Abs(path);
  if (s.inject) { Fired("io_error_remove"); g_k->Trace(Ev::kFault, 0, 0, "remove_fail", a); errno = EACCES; return -1; }
  Inode* n = g_k->fs.Find(a);
  if (!n) { errno = LookupErrno(g_k, a); return -1; }
  if (n->kind == Inode::kDir) {
    if (!allow_dir) { errno = EISDIR; return -1; }
    std::string pre = a + "/";
    auto it = g_k->fs.nodes.lower_bound(pre);
    if (it != g_k->fs.nodes.end() && it->first.compare(0, pre.size(), pre) == 0) { errno = ENOTEMPTY; return -1; }
  }
  g_k->fs.nodes.erase(a);
  g_k->Trace(Ev::kFsRemove, 0, 0, a);
  return 0;
}
int __wrap_remove(const char* path) {
  if (!g_in_sim) return REAL(remove)(path);
  return SimRemove(path, true);
}
int __wrap_unlink(const char* path) {
  if (!g_in_sim) return REAL(unlink)(path);
  return SimRemove(path, false);
}

int __wrap_rename(const char* from, const char* to) {
  if (!g_in_sim) return REAL(rename)(from, to);
  KernelMode km;
  Sys s = SysEnter('n');
  std::string a = g_k->Abs(from), b = g_k->Abs(to);
  if (s.inject) { Fired("io_error_rename"); g_k->Trace(Ev::kFault, 0, 0, "rename_fail", a); errno = EACCES; return -1; }
  auto it = g_k->fs.nodes.find(a);
  if (it == g_k->fs.nodes.end()) { errno = ENOENT; return -1; }
  if (!ParentIsDir(g_k, b)) { errno = ENOENT; return -1; }
  InodeP n = it->second;
  g_k->fs.nodes.erase(it);
  g_k->fs.nodes[b] = n;
  g_k->Trace(Ev::kFsRename, 0, 0, a, b);
  return 0;
}

int __wrap_truncate(const char* path, off_t len) {
  if (!g_in_sim) return REAL(truncate)(path, len);
  KernelMode km;
  Sys s = SysEnter('t');
  std::string a = g_k->Abs(path);
  if (s.inject) { Fired("io_error_truncate"); g_k->Trace(Ev::kFault, 0, 0, "truncate_fail", a); errno = EIO; return -1; }
  Inode* n = g_k->fs.Find(a);
  if (!n) { errno = ENOENT; return -1; }
  n->data.resize((size_t)len, '\0');
  n->mtime = g_k->Stamp(false);
  g_k->Trace(Ev::kFsTruncate, (int)len, 0, a);
  return 0;
}

int __wrap_chown(const char* path, uid_t u, gid_t g) {
  if (!g_in_sim) return REAL(chown)(path, u, g);
  KernelMode km;
  Sys s = SysEnter('h');
  if (s.inject) { Fired("io_error_chown"); errno = EPERM; return -1; }
  if (!g_k->fs.Find(g_k->Abs(path))) { errno = ENOENT; return -1; }
  return 0;
}

int __wrap_open(const char* path, int flags, ...) {
  mode_t mode = 0;
  if (flags & O_CREAT) { va_list ap; va_start(ap, flags); mode = va_arg(ap, mode_t); va_end(ap); }
  if (!g_in_sim) return REAL(open)(path, flags, mode);
  KernelMode km;
  Sys s = SysEnter('p');
  std::string a = g_k->Abs(path);
  if (s.inject) { Fired("io_error_open"); errno = EACCES; return -1; }
  auto it = g_k->fs.nodes.find(a);
  if (it == g_k->fs.nodes.end()) { errno = ENOENT; return -1; }
  Kernel::Proc::Fd fd;
  fd.ino = it->second;
  fd.path = a;
  fd.nonblock = (flags & O_NONBLOCK) != 0;
  if (it->second->kind == Inode::kFifo)
    fd.kind = (flags & O_ACCMODE) == O_RDONLY ? Kernel::Proc::Fd::kFifoR : Kernel::Proc::Fd::kFifoW;
  else
    fd.kind = Kernel::Proc::Fd::kCookieFd;
  int n = P->next_fd++;
  P->fds[n] = fd;
  return n;
}

int __wrap_close(int fd) {
  if (!g_in_sim) return REAL(close)(fd);
  KernelMode km;
  SysEnter('x');
  auto it = P->fds.find(fd);
  if (it == P->fds.end()) { errno = EBADF; return -1; }
  if (it->second.kind == Kernel::Proc::Fd::kPipeW) P->pipes[it->second.pipe_id].writers--;
  if (it->second.kind == Kernel::Proc::Fd::kPipeR) P->pipes[it->second.pipe_id].readers--;
  P->fds.erase(it);
  return 0;
}

// Blocks (runs events) until `ready()`; returns false with EINTR semantics
// when `interruptible_mask` is given and a signal not blocked by it arrives.
static bool BlockUntil(const std::function<bool()>& ready, const uint64_t* wait_mask) {
  for (;;) {
    if (ready()) return true;
    if (wait_mask && DeliverableSignal(*wait_mask)) return false;
    if (g_k->handler) g_k->handler->OnIdle(*g_k);
    if (!RunNextEvent()) {
      g_k->Trace(Ev::kBlock, 0, 0, "hang");
      Doom(ProcResult::kHang, "blocked forever: nothing ready and no event pending");
      LeaveDoomed();
    }
  }
}

ssize_t __wrap_read(int fd, void* buf, size_t n) {
  if (!g_in_sim) return REAL(read)(fd, buf, n);
  KernelMode km;
  SysEnter('R');
  auto it = P->fds.find(fd);
  if (it == P->fds.end()) { errno = EBADF; return -1; }
  Kernel::Proc::Fd& f = it->second;
  if (f.kind == Kernel::Proc::Fd::kPipeR) {
    if (Buggify(P->spec.faults.pm_eintr)) { Fired("eintr_read"); errno = EINTR; return -1; }
    Pipe& pp = P->pipes[f.pipe_id];
    if (pp.buf.empty() && pp.writers > 0) {
      int pid = f.pipe_id;
      BlockUntil([pid]() { Pipe& q = P->pipes[pid]; return !q.buf.empty() || q.writers <= 0; }, nullptr);
    }
    Pipe& p2 = P->pipes[f.pipe_id];
    if (p2.buf.empty()) return 0;
    size_t m = std::min(n, p2.buf.size());
    if (m > 1 && Buggify(P->spec.faults.pm_short_read)) { m = 1 + g_k->tape->Choice(P->spec.faults.stream, (uint32_t)m); Fired("short_pipe_read"); }
    memcpy(buf, p2.buf.data(), m);
    p2.buf.erase(0, m);
    return (ssize_t)m;
  }
  if (f.kind == Kernel::Proc::Fd::kFifoR) {
    if (Buggify(P->spec.faults.pm_eintr)) { Fired("eintr_read"); errno = EINTR; return -1; }
    std::string& q = f.ino->data;
    // the FIFO may have been removed and re-created: tokens live in the inode we opened
    if (q.empty() || Buggify(P->spec.faults.pm_eagain_token)) {
      if (!q.empty()) Fired("eagain_token_race");
      errno = EAGAIN; return -1;
    }
    size_t m = std::min(n, q.size());
    memcpy(buf, q.data(), m);
    std::string got = q.substr(0, m);
    q.erase(0, m);
    g_k->Trace(Ev::kTokenRead, (int)m, 0, got);
    return (ssize_t)m;
  }
  errno = EBADF;
  return -1;
}

ssize_t __wrap_write(int fd, const void* buf, size_t n) {
  if (!g_in_sim) return REAL(write)(fd, buf, n);
  KernelMode km;
  SysEnter('W');
  auto it = P->fds.find(fd);
  if (it == P->fds.end()) { errno = EBADF; return -1; }
  Kernel::Proc::Fd& f = it->second;
  if (f.kind == Kernel::Proc::Fd::kFifoW) {
    if (Buggify(P->spec.faults.pm_eintr)) { Fired("eintr_write"); errno = EINTR; return -1; }
    f.ino->data.append(static_cast<const char*>(buf), n);
    g_k->Trace(Ev::kTokenWrite, (int)n, 0, std::string(static_cast<const char*>(buf), n));
    return (ssize_t)n;
  }
  if (f.kind == Kernel::Proc::Fd::kPipeW) {
    P->pipes[f.pipe_id].buf.append(static_cast<const char*>(buf), n);
    return (ssize_t)n;
  }
  errno = EBADF;
  return -1;
}

int __wrap_fcntl(int fd, int cmd, ...) {
  va_list ap; va_start(ap, cmd); long arg = va_arg(ap, long); va_end(ap);
  if (!g_in_sim) return REAL(fcntl)(fd, cmd, arg);
  KernelMode km;
  SysEnter('F');
  if (P->fds.find(fd) == P->fds.end()) { errno = EBADF; return -1; }
  return 0;
}

char* __wrap_getcwd(char* buf, size_t n) {
  if (!g_in_sim) return REAL(getcwd)(buf, n);
  KernelMode km;
  SysEnter('g');
  if (g_k->cwd.size() + 1 > n) { errno = ERANGE; return nullptr; }
  strcpy(buf, g_k->cwd.c_str());
  return buf;
}

int __wrap_chdir(const char* path) {
  if (!g_in_sim) return REAL(chdir)(path);
  KernelMode km;
  SysEnter('d');
  std::string a = g_k->Abs(path);
  Inode* n = g_k->fs.Find(a);
  if (a != "/" && (!n || n->kind != Inode::kDir)) { errno = ENOENT; return -1; }
  g_k->cwd = a;
  return 0;
}

int __wrap_pipe(int fds[2]) {
  if (!g_in_sim) return REAL(pipe)(fds);
  KernelMode km;
  Sys s = SysEnter('P');
  if (s.inject) { Fired("io_error_pipe"); g_k->Trace(Ev::kFault, 0, 0, "pipe_emfile"); errno = EMFILE; return -1; }
  int id = P->next_pipe++;
  Pipe& pp = P->pipes[id];
  pp.readers = 1; pp.writers = 1;
  Kernel::Proc::Fd r; r.kind = Kernel::Proc::Fd::kPipeR; r.pipe_id = id;
  Kernel::Proc::Fd w; w.kind = Kernel::Proc::Fd::kPipeW; w.pipe_id = id;
  fds[0] = P->next_fd++; fds[1] = P->next_fd++;
  P->fds[fds[0]] = r; P->fds[fds[1]] = w;
  return 0;
}

int __wrap_posix_spawn_file_actions_adddup2(posix_spawn_file_actions_t* fa, int fd, int newfd) {
  if (!g_in_sim) return REAL(posix_spawn_file_actions_adddup2)(fa, fd, newfd);
  KernelMode km;
  P->spawn_actions[fa].push_back({1, fd, newfd});
  return 0;
}
int __wrap_posix_spawn_file_actions_addclose(posix_spawn_file_actions_t* fa, int fd) {
  if (!g_in_sim) return REAL(posix_spawn_file_actions_addclose)(fa, fd);
  KernelMode km;
  P->spawn_actions[fa].push_back({2, fd, 0});
  return 0;
}
int __wrap_posix_spawn_file_actions_addopen(posix_spawn_file_actions_t* fa, int fd, const char* path, int fl, mode_t m) {
  if (!g_in_sim) return REAL(posix_spawn_file_actions_addopen)(fa, fd, path, fl, m);
  KernelMode km;
  P->spawn_actions[fa].push_back({3, fd, 0});
  return 0;
}

int __wrap_posix_spawn(pid_t* pid, const char* path, const posix_spawn_file_actions_t* fa,
                       const posix_spawnattr_t* attr, char* const argv[], char* const envp[]) {
  if (!g_in_sim) return REAL(posix_spawn)(pid, path, fa, attr, argv, envp);
  KernelMode km;
  Sys s = SysEnter('S');
  if (s.inject) { Fired("io_error_spawn"); g_k->Trace(Ev::kFault, 0, 0, "spawn_eagain"); return EAGAIN; }
  std::string cmd;
  if (argv && argv[0] && argv[1] && argv[2]) cmd = argv[2];
  int out_fd = -1;
  auto acts = P->spawn_actions.find(fa);
  if (acts != P->spawn_actions.end()) {
    for (auto& a : acts->second) if (a[0] == 1 && a[2] == 1) out_fd = a[1];
    P->spawn_actions.erase(acts);
  }
  Child c;
  c.pid = P->next_pid++;
  c.cmd = cmd;
  c.console = out_fd < 0;
  if (out_fd >= 0) {
    auto it = P->fds.find(out_fd);
    if (it != P->fds.end() && it->second.kind == Kernel::Proc::Fd::kPipeW) {
      c.pipe_id = it->second.pipe_id;
      P->pipes[c.pipe_id].writers++;
    }
  }
  c.start_time = g_k->now;
  if (g_k->handler) c.plan = g_k->handler->OnSpawn(*g_k, cmd, c.console);
  if (c.plan.steps.empty()) { ChildStep st; st.kind = ChildStep::kExit; st.at_ns = 1000000; st.status = 0; c.plan.steps.push_back(st); }
  c.spawn_seq = g_k->seq + 1;
  // a = pid, b = the statement id the driver attached, t = "console" or ""
  g_k->Trace(Ev::kSpawn, c.pid, c.plan.tag, cmd, c.console ? "console" : "");
  int cp = c.pid;
  P->children[cp] = std::move(c);
  ScheduleChild(g_k, cp);
  *pid = cp;
  return 0;
}

pid_t __wrap_waitpid(pid_t pid, int* status, int options) {
  if (!g_in_sim) return REAL(waitpid)(pid, status, options);
  KernelMode km;
  SysEnter('Z');
  auto it = P->children.find(pid);
  if (it == P->children.end() || it->second.reaped) { errno = ECHILD; return -1; }
  if (!it->second.exited) {
    if (options & WNOHANG) return 0;
    if (Buggify(P->spec.faults.pm_eintr)) { Fired("eintr_waitpid"); errno = EINTR; return -1; }
    int cp = pid;
    BlockUntil([cp]() { return P->children[cp].exited; }, nullptr);
  }
  Child& c = P->children[pid];
  c.reaped = true;
  if (status) *status = c.status;
  g_k->Trace(Ev::kReap, pid, c.status, c.cmd);
  P->res.trace.back().b = c.status;
  return pid;
}

int __wrap_kill(pid_t pid, int sig) {
  if (!g_in_sim) return REAL(kill)(pid, sig);
  KernelMode km;
  SysEnter('K');
  int target = pid < 0 ? -pid : pid;
  g_k->Trace(Ev::kKill, target, sig, pid < 0 ? "group" : "pid");
  auto it = P->children.find(target);
  if (it == P->children.end()) { errno = ESRCH; return -1; }
  ChildSignal(it->second, sig, pid < 0);
  return 0;
}

pid_t __wrap_getpid(void) {
  if (!g_in_sim) return REAL(getpid)();
  return 4242;
}

void __wrap_exit(int code) {
  if (!g_in_sim) REAL(exit)(code);
  KernelMode km;
  SysEnter('E');
  DoExit(code, true);
}
void __wrap__exit(int code) {
  if (!g_in_sim) REAL(_exit)(code);
  KernelMode km;
  SysEnter('E');
  DoExit(code, false);
}
void __wrap_abort(void) {
  if (!g_in_sim) REAL(abort)();
  KernelMode km;
  Doom(ProcResult::kAbort, "abort()");
  LeaveDoomed();
}
void __wrap___assert_fail(const char* expr, const char* file, unsigned line, const char* func) {
  if (!g_in_sim) REAL(__assert_fail)(expr, file, line, func);
  KernelMode km;
  char buf[512];
  snprintf(buf, sizeof buf, "assertion failed: %s (%s:%u)", expr, file, line);
  Doom(ProcResult::kAssert, buf);
  LeaveDoomed();
}

int __wrap_ppoll(struct pollfd* fds, nfds_t nfds, const struct timespec* to, const sigset_t* sigmask) {
  if (!g_in_sim) return REAL(ppoll)(fds, nfds, to, sigmask);
  KernelMode km;
  SysEnter('L');
  uint64_t wait_mask = sigmask ? SetToMask(sigmask) : P->blocked;
  auto scan = [fds, nfds]() {
    int cnt = 0;
    for (nfds_t i = 0; i < nfds; i++) {
      fds[i].revents = 0;
      if (fds[i].fd < 0) continue;
      auto it = P->fds.find(fds[i].fd);
      if (it == P->fds.end()) { fds[i].revents = POLLNVAL; cnt++; continue; }
      Kernel::Proc::Fd& f = it->second;
      if (f.kind == Kernel::Proc::Fd::kPipeR) {
        Pipe& pp = P->pipes[f.pipe_id];
        if (!pp.buf.empty()) fds[i].revents |= POLLIN;
        if (pp.writers <= 0) fds[i].revents |= POLLHUP;
      } else if (f.kind == Kernel::Proc::Fd::kFifoR) {
        if (!f.ino->data.empty()) fds[i].revents |= POLLIN;
      }
      if (fds[i].revents) cnt++;
    }
    return cnt;
  };
  if (Buggify(P->spec.faults.pm_spurious_wake)) {
    // legal: EINTR without any handler of ours having run (e.g. SIGCONT)
    Fired("spurious_wake");
    for (nfds_t i = 0; i < nfds; i++) fds[i].revents = 0;
    errno = EINTR;
    return -1;
  }
  int64_t t0 = g_k->now;
  bool ok = BlockUntil([&scan]() { return scan() > 0; }, &wait_mask);
  if (g_k->now > t0) g_k->Trace(Ev::kBlock, 0, 0, "ppoll", std::to_string(g_k->now - t0));
  if (!ok) {
    for (nfds_t i = 0; i < nfds; i++) fds[i].revents = 0;
    DeliverSignals(wait_mask, true);
    errno = EINTR;
    return -1;
  }
  if (Buggify(P->spec.faults.pm_slow_wake)) {
    // legal: the process is not scheduled (or sits stopped) for a while after the kernel has decided to
    // wake it; whatever else ended meanwhile is reported in the same round
    Fired("slow_wake");
    g_k->now += (int64_t)(1 + (g_k->tape ? g_k->tape->Choice(P->spec.faults.stream, 6) : 0)) * 500000;
    RunDueEvents();
  }
  return scan();
}

int __wrap_sigaction(int sig, const struct sigaction* act, struct sigaction* old) {
  if (!g_in_sim) return REAL(sigaction)(sig, act, old);
  KernelMode km;
  SysEnter('A');
  if (sig <= 0 || sig > 64) { errno = EINVAL; return -1; }
  if (old) *old = P->handlers[sig];
  if (act) {
    P->handlers[sig] = *act;
    // POSIX: setting the action to SIG_IGN discards a pending signal
    if (!(act->sa_flags & SA_SIGINFO) && act->sa_handler == SIG_IGN) P->pending &= ~(1ull << sig);
  }
  return 0;
}

int __wrap_sigprocmask(int how, const sigset_t* set, sigset_t* old) {
  if (!g_in_sim) return REAL(sigprocmask)(how, set, old);
  KernelMode km;
  SysEnter('M');
  if (old) MaskToSet(P->blocked, old);
  if (set) {
    uint64_t m = SetToMask(set);
    if (how == SIG_BLOCK) P->blocked |= m;
    else if (how == SIG_UNBLOCK) P->blocked &= ~m;
    else P->blocked = m;
    // signals that became unblocked are delivered now
    if (DeliverableSignal(P->blocked)) DeliverSignals(P->blocked, true);
  }
  return 0;
}

int __wrap_sigpending(sigset_t* set) {
  if (!g_in_sim) return REAL(sigpending)(set);
  KernelMode km;
  SysEnter('G');
  MaskToSet(P->pending, set);
  return 0;
}

int __wrap_isatty(int fd) {
  if (!g_in_sim) return REAL(isatty)(fd);
  KernelMode km;
  if (fd == 1 || fd == 2) return P->spec.tty.stdout_tty ? 1 : (errno = ENOTTY, 0);
  errno = ENOTTY;
  return 0;
}

int __wrap_ioctl(int fd, unsigned long req, ...) {
  va_list ap; va_start(ap, req); void* arg = va_arg(ap, void*); va_end(ap);
  if (!g_in_sim) return REAL(ioctl)(fd, req, arg);
  KernelMode km;
  if (req == TIOCGWINSZ && (fd == 1 || fd == 2) && P->spec.tty.stdout_tty) {
    struct winsize* ws = static_cast<struct winsize*>(arg);
    memset(ws, 0, sizeof *ws);
    ws->ws_col = (unsigned short)P->spec.tty.cols;
    ws->ws_row = 24;
    return 0;
  }
  errno = ENOTTY;
  return -1;
}

char* __wrap_getenv(const char* name) {
  if (!g_in_sim) return REAL(getenv)(name);
  KernelMode km;
  auto it = P->spec.env.find(name);
  if (it == P->spec.env.end()) return nullptr;
  return const_cast<char*>(it->second.c_str());
}

int __wrap_getloadavg(double out[], int n) {
  if (!g_in_sim) return REAL(getloadavg)(out, n);
  KernelMode km;
  SysEnter('l');
  int running = 0;
  for (auto& c : P->children) if (!c.second.exited) running++;
  double jitter = g_k->tape ? (double)g_k->tape->Choice(P->spec.faults.stream, 300) / 100.0 : 0.0;
  for (int i = 0; i < n; i++) out[i] = running + jitter;
  return n;
}

int64_t __wrap__Z13GetTimeMillisv(void) {
  if (!g_in_sim) return REAL(_Z13GetTimeMillisv)();
  return g_k->now / 1000000;
}

int __wrap__Z17GetProcessorCountv(void) {
  if (!g_in_sim) return REAL(_Z17GetProcessorCountv)();
  return P->spec.nproc;
}

}  // extern "C"
