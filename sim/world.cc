#include "world.h"

#include <signal.h>
#include <stdio.h>
#include <string.h>
#include <stdlib.h>
#include <ctype.h>
#include <unistd.h>
#include <algorithm>

namespace sim {
bool g_debug_explain = false;   // SIM_DEBUG_EXPLAIN: every invocation gets -d explain (debugging a replay only)


static std::string Dirname(const std::string& p) {
  size_t s = p.rfind('/');
  return s == std::string::npos ? "" : p.substr(0, s);
}

static std::string DepfileEscape(const std::string& p) {
  std::string r;
  for (char c : p) {
    if (c == ' ' || c == '#') r += '\\';
    if (c == '$') r += '$';
    r += c;
  }
  return r;
}

// ------------------------------------------------------------------ world basics
std::string World::SourceContent(const std::string& p) const {
  if (const DyndepFile* d = sc.FindDyndep(p)) if (d->producer < 0) { auto o = dd_override.find(p); return o != dd_override.end() ? o->second : sc.DyndepText(*d); }
  if (emptied.count(p)) return "";
  auto it = version.find(p);
  auto inc = inc_version.find(p);
  char buf[48];
  snprintf(buf, sizeof buf, " v%d i%d\n", it == version.end() ? 0 : it->second, inc == inc_version.end() ? 0 : inc->second);
  return "src " + p + buf;
}

void World::WriteManifest() {
  k.WriteFile("build.ninja", sc.ManifestText(), true);
  if (sc.subninja) k.WriteFile("sub.ninja", sc.SubManifestText(), true);
}

void World::Init(const Scenario& s) {
  sc = s;
  k.tape = tape;
  k.MkdirP("/w");
  for (auto& p : sc.sources) { version[p] = 0; k.WriteFile(p, SourceContent(p), true); }
  WriteManifest();
}

World World::Fork() const {
  World w = *this;
  w.k.fs = k.fs.Clone();
  w.k.proc = nullptr;
  w.k.on_event = nullptr;
  w.cur = nullptr;
  return w;
}

void World::Report(const std::string& prop, const std::string& cls, const std::string& msg) {
  if (!viol) return;
  for (auto& v : *viol) if (v.prop == prop && v.cls == cls) return;   // one per class and run
  Violation v; v.prop = prop; v.cls = cls; v.msg = (label.empty() ? "" : "[" + label + "] ") + msg;
  viol->push_back(v);
}

static void AddInputs(const Scenario& sc, const Stmt& s, std::vector<std::string>* v) {
  v->insert(v->end(), s.ins.begin(), s.ins.end());
  v->insert(v->end(), s.imp_ins.begin(), s.imp_ins.end());
  v->insert(v->end(), s.extra_imp.begin(), s.extra_imp.end());
  v->insert(v->end(), s.oo_ins.begin(), s.oo_ins.end());
  if (const DyndepEntry* e = sc.DyndepFor(s.id)) v->insert(v->end(), e->imp_ins.begin(), e->imp_ins.end());
}

std::set<int> World::StmtClosure(int stmt) const {
  std::set<int> seen;
  std::vector<int> todo;
  auto push_inputs = [&](int id) {
    std::vector<std::string> in;
    AddInputs(sc, sc.stmts[id], &in);
    auto rh = reported_hidden.find(id);
    if (rh != reported_hidden.end()) in.insert(in.end(), rh->second.begin(), rh->second.end());
    for (auto& p : in) { int pr = sc.Producer(p); if (pr >= 0 && pr != stmt && seen.insert(pr).second) todo.push_back(pr); }
  };
  push_inputs(stmt);
  while (!todo.empty()) { int id = todo.back(); todo.pop_back(); push_inputs(id); }
  return seen;
}

std::set<int> World::Closure(const std::vector<std::string>& targets, bool with_validations) const {
  std::set<int> seen;
  std::vector<int> todo;
  for (auto& t : targets) { int pr = sc.Producer(t); if (pr >= 0 && seen.insert(pr).second) todo.push_back(pr); }
  while (!todo.empty()) {
    int id = todo.back(); todo.pop_back();
    std::vector<std::string> in;
    AddInputs(sc, sc.stmts[id], &in);
    if (with_validations) in.insert(in.end(), sc.stmts[id].validations.begin(), sc.stmts[id].validations.end());
    auto rh = reported_hidden.find(id);
    if (rh != reported_hidden.end()) in.insert(in.end(), rh->second.begin(), rh->second.end());
    for (auto& p : in) { int pr = sc.Producer(p); if (pr >= 0 && seen.insert(pr).second) todo.push_back(pr); }
  }
  return seen;
}

// What `ninja [targets]` means: the named targets, else the defaults, else
// every output nothing else consumes.
std::vector<std::string> World::EffectiveTargets(const InvPlan& p) const {
  if (!p.targets.empty()) return p.targets;
  if (!sc.defaults.empty()) return sc.defaults;
  std::vector<std::string> r;
  std::set<std::string> consumed;
  // (as the manifest alone defines it: what dyndep files add is not known yet
  // when the root nodes are determined)
  for (const Stmt& s : sc.stmts) {
    if (!s.alive) continue;
    for (auto* v : {&s.ins, &s.imp_ins, &s.oo_ins}) for (auto& x : *v) consumed.insert(x);
  }
  for (const Stmt& s : sc.stmts) {
    if (!s.alive) continue;
    for (auto& o : s.AllOuts()) if (!consumed.count(o)) r.push_back(o);
  }
  return r;
}

// What the real /bin/sh makes of `sim <args>`: the words, NUL separated.
// Runs outside the simulation, memoised per distinct string (C16 side-oracle).
static bool ShellWords(const std::string& args, std::vector<std::string>* words) {
  static std::map<std::string, std::pair<bool, std::vector<std::string>>> memo;
  auto m = memo.find(args);
  if (m != memo.end()) { *words = m->second.second; return m->second.first; }
  bool ok = false;
  std::vector<std::string> v;
  char path[64];
  snprintf(path, sizeof path, "/tmp/simninja_sh_%d", (int)getpid());
  FILE* f = fopen(path, "wb");
  if (f) {
    std::string script = "sim() { for a in \"$@\"; do printf '%s\\0' \"$a\"; done; }\n" + args + "\n";
    fwrite(script.data(), 1, script.size(), f);
    fclose(f);
    std::string cmd = std::string("cd /var/empty 2>/dev/null || cd /; /bin/sh ") + path + " 2>/dev/null";
    FILE* p = popen(cmd.c_str(), "r");
    if (p) {
      std::string out;
      char buf[4096];
      size_t n;
      while ((n = fread(buf, 1, sizeof buf, p)) > 0) out.append(buf, n);
      int st = pclose(p);
      ok = st == 0;
      size_t i = 0;
      while (i < out.size()) { size_t z = out.find('\0', i); if (z == std::string::npos) z = out.size(); v.push_back(out.substr(i, z - i)); i = z + 1; }
    }
    remove(path);
  }
  if (memo.size() > 20000) memo.clear();
  memo[args] = std::make_pair(ok, v);
  *words = v;
  return ok;
}

// ------------------------------------------------------------------ children
ChildPlan World::OnSpawn(Kernel& kk, const std::string& cmd, bool console) {
  ChildPlan plan;
  int id = -1, key = 0, cos = 0;
  if (sscanf(cmd.c_str(), "sim %d k%d c%d", &id, &key, &cos) != 3 || id < 0 || id >= (int)sc.stmts.size() ||
      !sc.stmts[id].alive || sc.stmts[id].phony) {
    Report("C16", "word_mismatch", "spawned a command no statement owns: " + cmd);
    ChildStep st; st.kind = ChildStep::kExit; st.at_ns = 1000000; st.status = 0;
    plan.steps.push_back(st);
    return plan;
  }
  const Stmt& s = sc.stmts[id];
  InvRecord& r = *cur;
  int st_stream = r.plan.stream;
  SpawnRec rec;
  rec.seq = kk.seq + 1;
  rec.time = kk.now;
  rec.stmt = id;
  rec.epoch = epoch;
  rec.console = console;
  rec.cmd = cmd;
  rec.closure = StmtClosure(id);
  rec.outs = sc.DeclaredOuts(id);
  rec.pool = s.pool;
  rec.depfile = s.depfile;
  rec.deps_kind_depfile = s.deps_kind == 1 || s.deps_kind == 2;
  rec.pre_depfile = !s.depfile.empty() && kk.Exists(s.depfile);
  for (auto& o : rec.outs) {
    std::string c;
    if (kk.ReadFile(o, &c)) rec.pre_outs[o] = std::make_pair(c, kk.Mtime(o));
  }

  // ---- C04 (b)(c)(d) and C16: evaluated at the instant the command starts
  for (auto& o : rec.outs) {
    std::string d = Dirname(o);
    if (!d.empty() && !kk.Exists(d)) Report("C04", "missing_dir_or_rspfile", "directory of output " + o + " missing when statement " + std::to_string(id) + " started");
  }
  if (!s.depfile.empty()) {
    std::string d = Dirname(s.depfile);
    if (!d.empty() && !kk.Exists(d)) {
      Report("C04", "missing_dir_or_rspfile", "directory of depfile " + s.depfile + " missing at start");
      // (the depfile is named through $out in half of the manifests: a name that is not taken literally ends up elsewhere)
      Report("C16", "rspfile_lifecycle", "the directory of depfile " + s.depfile + " does not exist when the command starts");
    }
  }
  if (s.rsp) {
    std::string have;
    if (!kk.ReadFile(s.rsp_path, &have)) {
      Report("C04", "missing_dir_or_rspfile", "response file " + s.rsp_path + " absent when the command started");
      Report("C16", "rspfile_lifecycle", "response file " + s.rsp_path + " absent when the command started");
    } else if (have != sc.RspContent(s)) {
      Report("C04", "missing_dir_or_rspfile", "response file " + s.rsp_path + " content differs from rspfile_content");
      Report("C16", "rspfile_lifecycle", "response file " + s.rsp_path + " holds '" + have + "' expected '" + sc.RspContent(s) + "'");
    }
  }
  if (cmd != sc.CommandLine(s)) {
    Report("C16", "word_mismatch", "command '" + cmd + "' differs from reference expansion '" + sc.CommandLine(s) + "'");
    Report("C04", "missing_dir_or_rspfile", "command line differs from the reference expansion");
  }

  // ---- C16 side-oracle: the real shell must see exactly the file names as words
  if ((sc.features & F_HOSTILE_NAMES) && prof->name == "C16") {
    std::vector<std::string> words, want;
    char pre[64];
    snprintf(pre, sizeof pre, "%d k%d c%d", s.id, s.key, s.cosmetic);
    { std::string t = pre; size_t i = 0; while (i < t.size()) { size_t sp = t.find(' ', i); if (sp == std::string::npos) sp = t.size(); want.push_back(t.substr(i, sp - i)); i = sp + 1; } }
    if (s.rsp) want.push_back("@" + s.rsp_path); else for (auto& p : s.ins) want.push_back(p);
    want.push_back("-o");
    for (auto& p : s.outs) want.push_back(p);
    bool ok = ShellWords(cmd, &words);
    stats->n["shell_word_checks"]++;
    if (!ok || words != want) {
      std::string got;
      for (auto& x : words) got += "[" + x + "]";
      Report("C16", "word_mismatch", "/bin/sh does not read the command of statement " + std::to_string(id) + " as the expected words; it sees " + got + " for: " + cmd);
    }
    if (s.rsp && s.rsp_kind != 2) {
      std::string have;
      if (kk.ReadFile(s.rsp_path, &have)) {
        std::vector<std::string> rw;
        // ($in_newline puts one escaped name per line; a tool reads it line by line)
        std::string one_line = have;
        for (char& ch : one_line) if (ch == '\n') ch = ' ';
        bool ok2 = ShellWords("sim " + one_line, &rw);
        if (!ok2 || rw != s.ins) {
          std::string got;
          for (auto& x : rw) got += "[" + x + "]";
          Report("C16", "word_mismatch", "/bin/sh does not read the response file of statement " + std::to_string(id) + " as the input names: it sees " + got + " in '" + have + "'");
        }
      }
    }
    bool special = false;
    for (auto& p : want) for (char ch : p) if (!isalnum((unsigned char)ch) && !strchr("_+-./@", ch)) special = true;
    if (special) stats->nontrivial["C16"] = true;
  }

  // ---- C06: limits, at the instant the command starts
  {
    int running = (int)live.size() + 1;
    int eff_j = r.plan.j > 0 ? r.plan.j : (r.plan.j == 0 ? 1 << 30 : r.plan.nproc + 2);
    if (!r.plan.JsActive() && running > eff_j)
      Report("C06", "limit_exceeded", std::to_string(running) + " commands running with -j" + std::to_string(eff_j));
    if (r.plan.JsActive() && r.plan.j < 0 && running > 1 + tokens_held)
      Report("C06", "limit_exceeded", std::to_string(running) + " commands running while holding " + std::to_string(tokens_held) + " jobserver tokens");
    // -l N: a further command is only started while N minus the load average
    // leaves room; the simulated load is never below the number of running commands
    if (r.plan.l > 0 && running > 1 && (double)running > r.plan.l)
      Report("C06", "limit_exceeded", std::to_string(running) + " commands running with -l" + std::to_string(r.plan.l) + " although the load average was at least " + std::to_string(running - 1) + " when the last one was started");
    if (r.plan.l > 0 && running > 1 && (double)running >= r.plan.l - 1.0) stats->n["load_limit_reached"]++;
    if (!s.pool.empty()) {
      int in_pool = 1;
      for (auto& kv : live) if (kv.second >= 0 && kv.second < (int)sc.stmts.size() && sc.stmts[kv.second].pool == s.pool) in_pool++;
      int depth = s.pool == "console" ? 1 : sc.pools.count(s.pool) ? sc.pools.at(s.pool) : 0;
      if (depth > 0 && in_pool > depth)
        Report("C06", "limit_exceeded", std::to_string(in_pool) + " commands of pool " + s.pool + " (depth " + std::to_string(depth) + ") running");
      if (depth > 0 && in_pool == depth) stats->n["pool_full"]++;
    }
    if (running == eff_j) stats->n["j_full"]++;
    if (r.plan.JsActive() && running == 1 + tokens_held && running > 1) stats->n["tokens_full"]++;
    for (auto& q : r.spawns) if (q.stmt == id && q.epoch == epoch)
      Report("C06", "ran_twice", "statement " + std::to_string(id) + " started twice in one invocation");
  }

  // ---- what the command reads, fixed at start
  ContentFn get = [&kk](const std::string& p, std::string* c) { return kk.ReadFile(p, c); };
  std::vector<std::string> rs = ReadSet(sc, s, get);
  std::vector<std::pair<std::string, std::string>> snap;
  for (auto& p : rs) {
    std::string c;
    if (!kk.ReadFile(p, &c)) c = "<missing>";
    snap.emplace_back(p, c);
  }
  std::string rsp_content = sc.RspContent(s);
  std::vector<std::string> hidden = ActiveHidden(sc, s, get);
  for (auto& in : EffectiveInputs(id)) rec.in_mtime_at_start[in] = kk.Mtime(in);
  for (auto& h2 : hidden) rec.in_mtime_at_start[h2] = kk.Mtime(h2);
  if (getenv("SIM_DEBUG_READSET")) {
    std::string m = "[" + label + "] statement " + std::to_string(id) + " reads:";
    for (auto& kv : snap) m += " " + kv.first + "=" + JsonEscape(kv.second);
    HPrintf("%s\n", m.c_str());
  }

  // ---- scripted behaviour
  int64_t dur = (1 + (int64_t)tape->Choice(st_stream, 8)) * 1000000;
  int status = 0, fail_mode = 0;
  auto f = r.plan.fail.find(id);
  if (f != r.plan.fail.end()) { status = f->second.first; fail_mode = f->second.second; }
  rec.planned_status = status;
  plan.on_signal = r.plan.on_signal;
  plan.tag = id;
  if (prof->multi_process_cmds) plan.multi_process = tape->Choice(st_stream, 2) == 1;

  // output chunks: self-identifying so that every byte is attributable
  std::string all_out;
  int nchunks = 0;
  rec.deps_kind = s.deps_kind;
  if (s.deps_kind == 3) rec.reported_deps = hidden;
  else if (s.deps_kind == 2) rec.reported_deps = rs;
  if (s.deps_kind == 3) {
    std::string o;
    for (auto& h : hidden) {
      // compilers spell the same file in several ways (as the depfile writers below do)
      std::string sp = h;
      uint64_t style = Hash64(h, rec.seq) % 6;
      if (style == 0) sp = "./" + h;
      else if (style == 1) { size_t sl = h.find('/'); sp = sl == std::string::npos ? "././" + h : h.substr(0, sl) + "//" + h.substr(sl + 1); }
      else if (style == 2) { size_t sl = h.find('/'); sp = sl == std::string::npos ? h : h.substr(0, sl) + "/./" + h.substr(sl + 1); }
      o += MsvcPrefix(s) + sp + "\n";
    }
    if (MsvcPrefix(s) != "Note: including file: ") stats->n["msvc_custom_prefix"]++;
    if (r.plan.garbage_child_output) {
      // compiler output parsed for /showIncludes can be anything
      int nl = 1 + (int)tape->Choice(st_stream, 4);
      for (int i = 0; i < nl; i++) {
        static const char* kPre[] = {"Note: including file: ", "Note: including file:", "Note: including file:    ", "", "note: including file: ", "Note: including file: \r"};
        o += kPre[tape->Choice(st_stream, 6)];
        int len = (int)tape->Choice(st_stream, 40);
        for (int j = 0; j < len; j++) o += (char)tape->Choice(st_stream, 256);
        o += tape->Choice(st_stream, 3) == 0 ? "\r\n" : tape->Choice(st_stream, 2) ? "\n" : "";
      }
    }
    if (!o.empty()) { ChildStep c; c.kind = ChildStep::kOutput; c.at_ns = dur / 2; c.bytes = o; plan.steps.push_back(c); }
  } else if (prof->child_output) {
    nchunks = (int)tape->Choice(st_stream, 4);
    if (status != 0 && nchunks == 0) nchunks = (int)tape->Choice(st_stream, 2);
    for (int i = 0; i < nchunks; i++) {
      ChildStep c; c.kind = ChildStep::kOutput;
      c.at_ns = (int64_t)tape->Choice(st_stream, (uint32_t)(dur / 1000)) * 1000;
      char b[96];
      snprintf(b, sizeof b, "<<%d.%llu.%d>>", id, (unsigned long long)rec.seq, i);
      c.bytes = b;
      uint32_t shape = tape->Choice(st_stream, prof->hostile_output ? 8 : 3);
      if (shape == 0) c.bytes += "\n";
      else if (shape == 1) c.bytes += " text\nmore ";
      else if (shape == 3) c.bytes += std::string("nul\0byte", 8);
      else if (shape == 4) c.bytes += (Hash64(std::string(b), 3) % 2) ? "\x1b[31mred\x1b[0m\n" : "\x1b[31mred\x1b[3~del \x1b[0m\n";   // (a CSI may end in ~)
      else if (shape == 5) c.bytes += "\r\ncr ";
      else if (shape == 6) c.bytes += "\xff\xfe high\n";
      plan.steps.push_back(c);
    }
    std::stable_sort(plan.steps.begin(), plan.steps.end(), [](const ChildStep& a, const ChildStep& b) { return a.at_ns < b.at_ns; });
  }
  for (auto& c : plan.steps) all_out += c.bytes;
  rec.output = all_out;

  // the effect: outputs, depfile
  World* self = this;
  Scenario* scp = &sc;
  std::vector<std::string> outs = rec.outs;
  Stmt sv = s;
  const DyndepEntry* de = sc.DyndepFor(id);
  bool restat = s.restat || (de && de->restat);
  uint64_t myseq = rec.seq;
  ChildStep eff;
  eff.kind = ChildStep::kEffect;
  eff.at_ns = dur;
  // (only in -j1 builds: ninja closes the log when it STARTS a generator command; with other
  // commands finishing meanwhile the log is open again and a replacement loses their records -
  // a limit of the design, not of the implementation)
  bool restat_log = s.generator && !s.regen && prof->generator_restats_log && r.plan.j == 1 && !r.plan.jobserver && !r.plan.editor && !editor_ever && tape->Choice(st_stream, 3) == 1;   // (`-t restat` hides an edit made while a command ran: no editor then)
  // a tidy command: it ends by removing every empty directory of the tree (`find -type d -empty
  // -delete`), among them directories ninja made earlier in this invocation for commands that
  // failed or whose depfile it has consumed since.  Only in -j1 builds: nothing else is between
  // "ninja made my directories" and "I wrote into them" at that moment.
  bool prune_dirs = prof->prune_empty_dirs && !s.regen && r.plan.j == 1 && !r.plan.jobserver && tape->Choice(st_stream, 5) == 1;
  eff.fn = [self, scp, outs, sv, snap, rsp_content, rs, hidden, status, fail_mode, myseq, restat, restat_log, prune_dirs](Kernel& k2, Child& c) {
    bool partial = c.killed || (status != 0 && fail_mode == 2);
    bool none = status != 0 && fail_mode == 0 && !c.killed;
    if (prune_dirs && !c.killed) {
      for (bool again = true; again;) {
        again = false;
        for (auto it = k2.fs.nodes.begin(); it != k2.fs.nodes.end();) {
          bool empty_dir = it->second->kind == Inode::kDir && it->first != "/w" && it->first != "/";
          if (empty_dir) {
            auto nx = k2.fs.nodes.lower_bound(it->first + "/");
            if (nx != k2.fs.nodes.end() && nx->first.compare(0, it->first.size() + 1, it->first + "/") == 0) empty_dir = false;
          }
          if (empty_dir) { it = k2.fs.nodes.erase(it); again = true; self->stats->n["empty_dirs_pruned"]++; } else ++it;
        }
      }
    }
    if (none) return;
    // a manifest generator replaces build.ninja atomically or not at all
    if (sv.regen && (partial || status != 0)) return;
    bool backdate = self->prof->backdating_cmds && !restat && !sv.generator && !sv.regen && Hash64(&myseq, sizeof myseq, (uint64_t)sv.id * 5 + 2) % 3 == 0;
    // (compilers differ in whether the dependency file or the object is written last)
    bool depfile_first = Hash64(&myseq, sizeof myseq, (uint64_t)sv.id * 3 + 1) % 2 == 0;
    auto write_depfile = [&]() {
      if ((sv.deps_kind == 1 || sv.deps_kind == 2) && !partial && status == 0) {
        std::string d = DepfileEscape(sv.outs[0]) + ":";
        for (auto& p : rs) {
          // compilers spell the same file in several ways
          std::string sp = p;
          uint64_t style = Hash64(p, myseq) % 6;
          if (style == 0) sp = "./" + p;
          else if (style == 1) { size_t sl = p.find('/'); sp = sl == std::string::npos ? "././" + p : p.substr(0, sl) + "//" + p.substr(sl + 1); }
          else if (style == 2) { size_t sl = p.find('/'); sp = sl == std::string::npos ? p : p.substr(0, sl) + "/./" + p.substr(sl + 1); }
          d += " " + DepfileEscape(sp);
        }
        d += "\n";
        k2.WriteFile(sv.depfile, d);
        k2.Trace(Ev::kChildEffect, c.pid, sv.id, sv.depfile);
      } else if ((sv.deps_kind == 1 || sv.deps_kind == 2) && partial) {
        k2.WriteFile(sv.depfile, DepfileEscape(sv.outs[0]) + ": \n");
      }
    };
    if (depfile_first) write_depfile();
    for (size_t i = 0; i < outs.size(); i++) {
      std::string content = OutputContent(sv, (int)i, snap, rsp_content);
      const DyndepFile* d = scp->FindDyndep(outs[i]);
      if (d && d->producer == sv.id) {
        content = scp->DyndepText(*d);
        auto ov = self->dd_override.find(outs[i]);
        if (ov != self->dd_override.end()) {
          if (ov->second == "<absent>") { k2.Remove(outs[i]); continue; }
          content = ov->second;
        }
      }
      if (sv.regen && outs[i] == "build.ninja") {
        if (self->has_pending) { self->sc = self->pending; self->has_pending = false; }
        content = self->sc.ManifestText();
        bool declared = std::find(outs.begin(), outs.end(), std::string("sub.ninja")) != outs.end();
        if (self->sc.subninja && !declared) k2.WriteFile("sub.ninja", self->sc.SubManifestText());
        self->stats->n["manifest_regenerated"]++;
      }
      if (sv.regen && outs[i] == "sub.ninja") content = self->sc.SubManifestText();
      if (partial || status != 0) {
        if (partial && i > 0) break;
        // (a dyndep file is replaced atomically or not at all: garbage in it, trusted
        // through K11, would make every later build fail to parse it)
        if (d && d->producer == sv.id) continue;
        content = "garbage " + std::to_string(myseq) + "\n";
      }
      std::string have;
      bool exists = k2.ReadFile(outs[i], &have);
      // a restat command (by its rule or by its dyndep file) leaves an unchanged output alone
      if (restat && exists && have == content && status == 0 && !partial) { self->stats->n["restat_untouched"]++; if (sv.regen && outs[i] == "build.ninja") self->stats->n["regen_left_build_ninja_alone"]++; continue; }
      k2.MkdirP(Dirname(outs[i]).empty() ? "/w" : Dirname(outs[i]));
      int64_t prev_mtime = exists ? k2.Mtime(outs[i]) : 0;
      k2.WriteFile(outs[i], content);
      // a command that keeps time stamps (cp -p, install -p, tar x): the output gets the time of the newest
      // file the command read - earlier than the command's own start, but never earlier than the output's
      // previous time (time stamps do not go backwards)
      if (backdate && !(d && d->producer == sv.id)) {
        int64_t newest = 0;
        for (auto& kvp : snap) newest = std::max(newest, k2.Mtime(kvp.first));
        if (newest > prev_mtime) if (Inode* ino = k2.fs.Find(k2.Abs(outs[i]))) { ino->mtime = newest; self->stats->n["output_backdated"]++; }
      }
      k2.Trace(Ev::kChildEffect, c.pid, sv.id, outs[i]);
    }
    if (!depfile_first) write_depfile();
    if (status == 0 && !partial) self->reported_hidden[sv.id] = hidden;
    // a generator may end with `ninja -t restat` (CMake's regeneration does): the build log is
    // replaced by a copy whose recorded mtimes are the outputs' current ones - which is why
    // ninja closes its log before it starts a generator command
    if (restat_log && status == 0 && !partial) {
      std::string lp = scp->LogDir() + ".ninja_log", b;
      if (k2.ReadFile(lp, &b)) {
        BuildLogFold f = FoldBuildLog(b, true);
        if (f.valid_header && !b.empty() && b.back() == '\n') {
          std::string nb = "# ninja log v" + std::to_string(f.version) + "\n";
          for (auto& kv : f.last) {
            char l1[96], l2[40];
            snprintf(l1, sizeof l1, "%d\t%d\t%lld\t", kv.second.start, kv.second.end, (long long)(k2.Exists(kv.first) ? k2.Mtime(kv.first) : 0));
            snprintf(l2, sizeof l2, "\t%llx\n", (unsigned long long)kv.second.hash);
            nb += std::string(l1) + kv.first + l2;
          }
          k2.ReplaceFile(lp, nb);
          k2.Trace(Ev::kChildEffect, c.pid, sv.id, lp);
          self->stats->n["log_restated_by_generator"]++;
          self->log_restated = true;
        }
      }
    }
  };
  plan.steps.push_back(eff);
  uint32_t shape = tape->Choice(st_stream, 6);
  ChildStep cl; cl.kind = ChildStep::kClosePipe; cl.at_ns = dur;
  ChildStep ex; ex.kind = ChildStep::kExit; ex.at_ns = dur; ex.status = status;
  if (shape == 0) { ex.at_ns = dur + 300000; plan.steps.push_back(cl); plan.steps.push_back(ex); }       // closes, exits later
  else if (shape == 1) { cl.at_ns = dur + 300000; plan.steps.push_back(ex); plan.steps.push_back(cl); }  // a grandchild keeps the pipe
  else { plan.steps.push_back(cl); plan.steps.push_back(ex); }

  // ---- external editor: changes a source this command has already read
  for (auto& p : rs) r.read_by[p].insert(id);
  if (r.plan.editor && !r.editor_scheduled) {
    // restat and generator statements are exempt from "picked up by the next
    // run" (their log entry carries the output's own time), so the editor
    // only touches files no such statement has read in this invocation
    std::vector<std::string> srcs;
    for (auto& p : rs) {
      if (!sc.IsSource(p) || sc.FindDyndep(p) || p == "gen.src") continue;
      bool exempt_reader = false;
      for (int q : r.read_by[p]) {
        const Stmt& qs = sc.stmts[q];
        const DyndepEntry* qe = sc.DyndepFor(q);
        if (qs.restat || qs.generator || (qe && qe->restat)) exempt_reader = true;
      }
      if (!exempt_reader) srcs.push_back(p);
    }
    if (!srcs.empty() && tape->Choice(st_stream, 2) == 0) {
      std::string victim = srcs[tape->Choice(st_stream, (uint32_t)srcs.size())];
      int64_t at = (int64_t)tape->Choice(st_stream, (uint32_t)(dur / 1000)) * 1000;
      r.editor_scheduled = true;
      InvRecord* rp = &r;
      kk.AddActor(at, [self, victim, rp](Kernel& k2) {
        // a restat/generator statement may have read the file meanwhile
        for (int q : rp->read_by[victim]) {
          const Stmt& qs = self->sc.stmts[q];
          const DyndepEntry* qe = self->sc.DyndepFor(q);
          if (qs.restat || qs.generator || (qe && qe->restat)) return;
        }
        rp->external_edit = true;
        rp->edited_during.insert(victim);
        self->version[victim]++;
        k2.WriteFile(victim, self->SourceContent(victim), true);
        self->stats->faults["edit_during_build"]++;
      });
    }
  }
  // ---- user interrupt, placed while this command is in flight
  if (r.plan.fp.signals.empty() && r.interrupt_sig && !r.interrupted) {
    if (tape->Choice(st_stream, 3) == 0) {
      r.interrupted = true;
      int sig = r.interrupt_sig;
      int64_t at = (int64_t)tape->Choice(st_stream, (uint32_t)(dur / 1000 + 400)) * 1000;
      kk.AddActor(at, [self, sig](Kernel& k2) { k2.SendSignal(sig); self->stats->faults["interrupt"]++; });
    }
  }
  cur->spawns.push_back(rec);
  return plan;
}

// ------------------------------------------------------------------ one invocation
static uint64_t FsHash(const std::string& s) { return Hash64(s, 7); }

InvRecord World::RunInvocation(const InvPlan& plan) {
  InvRecord r;
  r.plan = plan;
  log_restated = false;
  if (plan.editor) editor_ever = true;   // an edit made while a command ran stays "pending" until that command re-runs
  std::vector<std::string>& a = r.argv;
  a.push_back("ninja");
  char buf[64];
  if (plan.j >= 0) { snprintf(buf, sizeof buf, "-j%d", plan.j); a.push_back(buf); }
  if (plan.k != 1) { snprintf(buf, sizeof buf, "-k%d", plan.k); a.push_back(buf); }
  if (plan.l > 0) { snprintf(buf, sizeof buf, "-l%.1f", plan.l); a.push_back(buf); }
  if (plan.dry) a.push_back("-n");
  if (plan.verbose) a.push_back("-v");
  if (plan.quiet) a.push_back("--quiet");
  if (plan.explain || g_debug_explain) { a.push_back("-d"); a.push_back("explain"); }
  if (plan.keeprsp) { a.push_back("-d"); a.push_back("keeprsp"); }
  if (plan.keepdepfile) { a.push_back("-d"); a.push_back("keepdepfile"); }
  ProcSpec sp;
  const char* kFmt = "[%s/%f/%t/%r] ";
  if (plan.status_mode == 1) sp.env["NINJA_STATUS"] = plan.status_fmt.empty() ? kFmt : plan.status_fmt.c_str();
  if (plan.status_mode == 2) { a.push_back("--status"); a.push_back(plan.status_fmt.empty() ? "[$started/$finished/$total/$running] $description" : plan.status_fmt); }
  if (!plan.tool.empty()) { a.push_back("-t"); for (auto& t : plan.tool) a.push_back(t); }
  for (auto& t : plan.targets) a.push_back(t);
  sp.argv = a;
  sp.env["TERM"] = plan.tty ? "xterm" : "dumb";
  if (plan.color_env & 1) sp.env["NO_COLOR"] = "1"; else if (plan.color_env & 8) sp.env["NO_COLOR"] = "0";
  if (plan.color_env & 2) sp.env["CLICOLOR_FORCE"] = "1"; else if (plan.color_env & 16) sp.env["CLICOLOR_FORCE"] = "0";
  if (plan.color_env & 4) sp.env["FORCE_COLOR"] = "yes"; else if (plan.color_env & 32) sp.env["FORCE_COLOR"] = "0";
  if (plan.color_env) stats->n["colour_env_set"]++;
  sp.tty.stdout_tty = plan.tty;
  sp.tty.cols = plan.cols;
  sp.faults = plan.fp;
  sp.faults.stream = plan.stream;
  sp.nproc = plan.nproc;
  sp.record_stats = plan.record_sys;
  if (!plan.jobserver && !plan.makeflags.empty()) { sp.env["MAKEFLAGS"] = plan.makeflags; stats->n["makeflags_garbage"]++; }
  if (plan.jobserver) {
    k.MkFifo("js.fifo", std::string((size_t)plan.js_tokens, '+'));
    {
      // MAKEFLAGS as different makes and wrappers spell it. 0-3 all name the fifo pool (the last
      // recognised option wins, tabs separate too, the first word is make's flag letters); 4-8 tell
      // ninja not to be a client: 'n' among the flag letters, a later auth=-1,-1, the unsupported
      // pipe form (warning), a fifo that cannot be opened (error message, build goes on), -j given.
      std::string jn = " -j" + std::to_string(plan.js_tokens + 1);
      std::string mf;
      switch (plan.js_variant) {
        default: mf = jn + " --jobserver-auth=fifo:js.fifo"; break;
        case 1: mf = "ks" + jn + " --jobserver-fds=3,4 --jobserver-auth=fifo:js.fifo"; break;
        case 2: mf = "\t" + jn.substr(1) + "\t\t--jobserver-auth=fifo:js.fifo  "; break;
        case 3: mf = "--jobserver-fds=8,9 --jobserver-auth=-1,-1 --jobserver-auth=fifo:js.fifo"; break;
        case 4: mf = "kn" + jn + " --jobserver-auth=fifo:js.fifo"; break;
        case 5: mf = jn + " --jobserver-auth=fifo:js.fifo --jobserver-auth=-1,-1"; break;
        case 6: mf = jn + " --jobserver-auth=fifo:js.fifo --jobserver-auth=3,4"; break;
        case 7: mf = jn + " --jobserver-auth=fifo:no/such.fifo"; break;
        case 8: mf = jn + " --jobserver-auth=fifo:js.fifo"; break;   // with -j on the command line
      }
      sp.env["MAKEFLAGS"] = mf;
      if (plan.js_variant) stats->n["makeflags_variant_" + std::to_string(plan.js_variant)]++;
    }
    r.tokens_before = plan.js_tokens;
    // other clients of the same pool: take a token when one is there, give it back later
    peer_holding = 0;
    World* selfw = this;
    for (int pi = 0; pi < plan.js_peers; pi++) {
      int cycles = 1 + (int)tape->Choice(plan.stream, 4);
      int64_t t = (int64_t)tape->Choice(plan.stream, 6000) * 1000;
      for (int c = 0; c < cycles; c++) {
        int64_t hold = (1 + (int64_t)tape->Choice(plan.stream, 6000)) * 1000;
        Actor take;
        take.at_ns = t;
        take.fn = [selfw, hold](Kernel& k2) {
          Inode* f = k2.fs.Find(k2.Abs("js.fifo"));
          if (!f || f->data.empty()) return;
          char tok = f->data[0];
          f->data.erase(0, 1);
          selfw->peer_holding++;
          selfw->stats->n["peer_took_token"]++;
          k2.AddActor(hold, [selfw, tok](Kernel& k3) {
            Inode* g = k3.fs.Find(k3.Abs("js.fifo"));
            if (g) g->data.push_back(tok);
            selfw->peer_holding--;
          });
        };
        k.start_actors.push_back(take);
        t += hold + (int64_t)tape->Choice(plan.stream, 3000) * 1000;
      }
    }
  }
  std::string lb, ld;
  bool hb = k.ReadFile(sc.LogDir() + ".ninja_log", &lb), hd = k.ReadFile(sc.LogDir() + ".ninja_deps", &ld);
  for (auto& d : sc.dyndeps) if (k.Exists(d.path)) r.dd_at_start.insert(d.path);
  r.log_before = FoldBuildLog(lb, hb);
  r.log_torn_tail_before = hb && !lb.empty() && lb.back() != '\n';
  r.deps_before = FoldDepsLog(ld, hd);
  for (auto& kv : k.fs.nodes)
    if (kv.second->kind == Inode::kFile) r.fs_before[kv.first] = std::make_pair(FsHash(kv.second->data), kv.second->mtime);

  ComputeExpectedRun(plan);
  if (getenv("SIM_ANNOUNCE")) { std::string a2 = "[" + label + "]"; for (auto& x : a) a2 += " " + x; fprintf(stderr, "INVOKE %s\n", a2.c_str()); }
  cur = &r;
  epoch = 0;
  tokens_held = 0;
  r.interrupt_sig = 0;
  if (!plan.fp.signals.empty()) { r.interrupted = true; r.interrupt_sig = plan.fp.signals[0].second; }
  else if (plan.on_signal >= 100) { r.interrupt_sig = plan.on_signal / 100; r.plan.on_signal = plan.on_signal % 100; }
  World* self = this;
  live.clear();
  k.on_event = [self](const Ev& e) {
    switch (e.kind) {
      case Ev::kOpenRead: if (e.s == "/w/build.ninja") self->epoch++; break;
      case Ev::kSpawn: self->live[e.a] = e.b; break;
      case Ev::kChildExit: self->live.erase(e.a); break;
      case Ev::kTokenRead: self->tokens_held += e.a; break;
      case Ev::kTokenWrite: self->tokens_held -= e.a; break;
      default: break;
    }
  };
  InvRecord* rp = &r;
  k.on_proc_exit = [self, rp]() {
    for (auto& x : rp->spawns)
      for (auto& o : x.outs) {
        std::string c;
        if (self->k.ReadFile(o, &c)) rp->outs_at_exit[o] = std::make_pair(c, self->k.Mtime(o));
      }
    for (auto& x : rp->spawns) if (!x.depfile.empty() && self->k.Exists(x.depfile)) rp->outs_at_exit[x.depfile] = std::make_pair(std::string(), self->k.Mtime(x.depfile));
    rp->lock_at_exit = self->k.Exists(self->sc.LogDir() + ".ninja_lock");
    if (rp->plan.jobserver) {
      // "by the time ninja exits": the pool plus what other clients hold, at this instant
      Inode* f = self->k.fs.Find(self->k.Abs("js.fifo"));
      rp->tokens_after = f ? (int)f->data.size() + self->peer_holding : -1;
    }
    for (auto& kv : self->live) rp->alive_at_exit.insert(kv.first);
  };
  r.res = k.RunNinja(sp, this);
  k.on_proc_exit = nullptr;
  k.on_event = nullptr;
  cur = nullptr;
  r.epochs = epoch;

  // complete the spawn records from the trace (the i-th owned spawn event
  // belongs to the i-th record: OnSpawn runs inside posix_spawn)
  {
    size_t si = 0;
    std::map<int, size_t> by_pid;
    for (const Ev& e : r.res.trace) {
      if (e.kind == Ev::kSpawn) {
        if (e.b < 0 || si >= r.spawns.size()) continue;
        r.spawns[si].pid = e.a; r.spawns[si].seq = e.seq; r.spawns[si].sysno = e.sysno;
        by_pid[e.a] = si++;
      } else if (e.kind == Ev::kChildExit) {
        auto it = by_pid.find(e.a);
        if (it != by_pid.end()) r.spawns[it->second].exit_seq = e.seq;
      } else if (e.kind == Ev::kReap) {
        auto it = by_pid.find(e.a);
        if (it != by_pid.end()) { r.spawns[it->second].reap_seq = e.seq; r.spawns[it->second].reap_status = e.b; }
      } else if (e.kind == Ev::kKill) {
        auto it = by_pid.find(e.a);
        if (it != by_pid.end()) r.spawns[it->second].killed = true;
      }
    }
  }
  hb = k.ReadFile(sc.LogDir() + ".ninja_log", &lb); hd = k.ReadFile(sc.LogDir() + ".ninja_deps", &ld);
  r.log_after = FoldBuildLog(hb ? lb : "", hb);
  r.log_restated = log_restated;
  r.deps_after = FoldDepsLog(hd ? ld : "", hd);

  static const char* kRealFaults[] = {"crash", "torn_write", "io_error_read", "io_error_write", "io_error_stat",
                                      "io_error_fopen", "io_error_mkdir", "io_error_remove", "io_error_rename",
                                      "io_error_truncate", "io_error_chown", "io_error_open", "io_error_pipe",
                                      "io_error_spawn", "signal_at_syscall", "killed_by_default_action"};
  for (auto* f : kRealFaults) if (r.res.fired.count(f)) r.fault_fired = true;
  if (r.interrupted) r.fault_fired = true;
  for (auto& s : r.spawns) if (s.planned_status != 0) r.fault_fired = true;
  for (auto& kv : r.res.fired) stats->faults[kv.first] += kv.second;
  stats->full_hash = Hash64(r.res.out, Hash64(r.res.err, stats->full_hash ^ (uint64_t)r.res.exit_code));
  stats->invocations++;
  stats->spawns += (long)r.spawns.size();
  stats->sim_ns += r.res.sim_ns;
  // run signature: ordered spawn / reap events by statement
  for (const Ev& e : r.res.trace) {
    uint64_t y[5] = {(uint64_t)e.kind, (uint64_t)e.a, (uint64_t)e.b, (uint64_t)e.time, stats->full_hash};
    stats->full_hash = Hash64(e.s, Hash64(y, sizeof y));
    if (e.kind == Ev::kSpawn || e.kind == Ev::kReap || e.kind == Ev::kFault || e.kind == Ev::kSignal) {
      uint64_t x[3] = {(uint64_t)e.kind, (uint64_t)(e.kind == Ev::kSpawn ? e.b : e.a % 1000), stats->sig};
      stats->sig = Hash64(x, sizeof x);
    }
  }
  return r;
}

}  // namespace sim
