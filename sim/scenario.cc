#include "scenario.h"

#include <algorithm>
#include <functional>
#include <stdio.h>

namespace sim {

// ------------------------------------------------------------------ escaping
static bool ShellSafe(char ch) {
  if ('A' <= ch && ch <= 'Z') return true;
  if ('a' <= ch && ch <= 'z') return true;
  if ('0' <= ch && ch <= '9') return true;
  switch (ch) {
    case '_': case '+': case '-': case '.': case '/': return true;
    default: return false;
  }
}

// Reference for what `$in`/`$out` must expand to: verbatim when every byte is
// known-safe, otherwise one single-quoted word with ' written as '\''.
std::string ShellEscape(const std::string& s) {
  bool safe = true;
  for (char c : s) if (!ShellSafe(c)) { safe = false; break; }
  if (safe) return s;
  std::string r = "'";
  for (char c : s) {
    if (c == '\'') r += "'\\''";
    else r += c;
  }
  r += "'";
  return r;
}

std::string NinjaPathEscape(const std::string& s) {
  std::string r;
  for (char c : s) {
    if (c == ' ' || c == ':' || c == '$') r += '$';
    r += c;
  }
  return r;
}

static std::string NinjaValueEscape(const std::string& s) {
  std::string r;
  for (char c : s) { if (c == '$') r += '$'; r += c; }
  return r;
}

// ------------------------------------------------------------------ queries
std::vector<std::string> Scenario::DeclaredOuts(int id) const {
  const Stmt& s = stmts[id];
  std::vector<std::string> v = s.AllOuts();
  if (const DyndepEntry* e = DyndepFor(id)) v.insert(v.end(), e->imp_outs.begin(), e->imp_outs.end());
  return v;
}

int Scenario::Producer(const std::string& path) const {
  for (const Stmt& s : stmts) {
    if (!s.alive) continue;
    for (auto& o : s.outs) if (o == path) return s.id;
    for (auto& o : s.imp_outs) if (o == path) return s.id;
  }
  for (const DyndepFile& d : dyndeps)
    if (!d.detached)
      for (const DyndepEntry& e : d.entries)
        if (e.stmt >= 0 && stmts[e.stmt].alive)
          for (auto& o : e.imp_outs) if (o == path) return e.stmt;
  return -1;
}

const DyndepFile* Scenario::FindDyndep(const std::string& path) const {
  for (const DyndepFile& d : dyndeps) if (d.path == path) return &d;
  return nullptr;
}

const DyndepEntry* Scenario::DyndepFor(int stmt) const {
  const Stmt& s = stmts[stmt];
  if (s.dyndep.empty()) return nullptr;
  const DyndepFile* d = FindDyndep(s.dyndep);
  if (!d || d->detached) return nullptr;
  for (const DyndepEntry& e : d->entries) if (e.stmt == stmt) return &e;
  return nullptr;
}

bool Scenario::IsSource(const std::string& p) const {
  return std::find(sources.begin(), sources.end(), p) != sources.end();
}

// ------------------------------------------------------------------ text
static std::string JoinEsc(const std::vector<std::string>& v, char sep) {
  std::string r;
  for (auto& p : v) { if (!r.empty()) r += sep; r += ShellEscape(p); }
  return r;
}

std::string Scenario::RspContent(const Stmt& s) const {
  if (!s.rsp) return "";
  if (s.rsp_kind == 0) return JoinEsc(s.ins, ' ');
  if (s.rsp_kind == 1) return JoinEsc(s.ins, '\n');
  return s.rsp_literal;
}

std::string Scenario::RuleCommandText(const Stmt& s) const {
  char buf[64];
  snprintf(buf, sizeof buf, "sim %d k%d c%d ", s.id, s.key, s.cosmetic);
  std::string r = buf;
  if (s.rsp) r += "@$rspfile"; else r += "$in";
  r += " -o $out";
  return r;
}

std::string Scenario::CommandLine(const Stmt& s) const {
  char buf[64];
  snprintf(buf, sizeof buf, "sim %d k%d c%d ", s.id, s.key, s.cosmetic);
  std::string r = buf;
  if (s.rsp) r += "@" + s.rsp_path; else r += JoinEsc(s.ins, ' ');
  r += " -o " + JoinEsc(s.outs, ' ');
  return r;
}

// Half of the dyndep bindings are written on the rule, so that the build statement
// has no bindings (and hence no scope) of its own - derived from the statement, not
// drawn from the tape.
static bool DyndepOnRule(const Stmt& s) { return !s.phony && !s.dyndep.empty() && Hash64(s.dyndep, (uint64_t)s.id * 31 + 7) % 2 == 0; }

// A third of the statements with deps / depfile bind them on the build statement instead of the rule.
// a third of the statements bind restat / generator on the build statement, not on the rule
static bool FlagsOnBuild(const Stmt& s) { return !s.regen && !s.outs.empty() && Hash64(s.outs[0], (uint64_t)s.id * 29 + (uint64_t)s.key * 101 + 13) % 3 == 0; }
// An alias of the plain form (one output, nothing implicit) may name itself among its inputs, as old CMake
// versions wrote it: ninja drops the self-reference with a warning (-w phonycycle=warn, the default) and
// the statement means what it means without it. One such alias in four does: half among the explicit
// inputs, half among the order-only ones. The scenario's own structure never holds the self-reference.
static int SelfRef(const Stmt& s) {
  if (!s.phony || s.outs.size() != 1 || !s.imp_outs.empty() || !s.imp_ins.empty() || !s.extra_imp.empty() || !s.validations.empty()) return 0;
  // (alias names repeat from scenario to scenario: the statement's key and first input vary the choice)
  uint64_t h = Hash64(s.outs[0] + "|" + (s.ins.empty() ? std::string() : s.ins[0]), (uint64_t)s.id * 37 + (uint64_t)s.key * 101 + 21) % 8;
  return h == 0 ? 1 : h == 1 ? 2 : 0;
}
std::string MsvcPrefix(const Stmt& s) {
  if (s.deps_kind != 3 || s.outs.empty()) return "Note: including file: ";
  switch (Hash64(s.outs[0], (uint64_t)s.id * 7 + 3) % 6) {
    case 0: return "Remarque : inclusion du fichier : ";
    case 1: return "INC>";
    default: return "Note: including file: ";
  }
}
static std::string MsvcPrefixBinding(const Stmt& s) {
  std::string p = MsvcPrefix(s);
  if (p == "Note: including file: ") return std::string();
  while (!p.empty() && p.back() == ' ') p.pop_back();   // ninja skips the blanks between prefix and path itself
  return "  msvc_deps_prefix = " + p + "\n";
}
static bool DepsOnBuild(const Stmt& s) { return s.deps_kind != 0 && !s.outs.empty() && Hash64(s.outs[0], (uint64_t)s.id * 17 + 11) % 3 == 0; }

static void PrintStmt(const Scenario& sc, const Stmt& s, std::string* o) {
  char buf[64];
  if (!s.phony) {
    snprintf(buf, sizeof buf, "rule r%d\n", s.id);
    *o += buf;
    *o += "  command = " + sc.RuleCommandText(s) + "\n";
    if (s.description) { snprintf(buf, sizeof buf, "  description = D%d $out\n", s.id); *o += buf; }
    if (s.restat && !FlagsOnBuild(s)) *o += "  restat = 1\n";
    if (s.generator && !FlagsOnBuild(s)) *o += "  generator = 1\n";
    if ((s.deps_kind == 1 || s.deps_kind == 2) && !DepsOnBuild(s)) {
      // half of the depfile bindings are spelled through $out, as build files usually do
      // (the unescaped expansion is what names the file, whatever characters $out has)
      std::string tail = s.outs.empty() ? std::string() : s.outs[0] + ".d";
      bool via_out = s.outs.size() == 1 && s.depfile.size() >= tail.size() && s.depfile.compare(s.depfile.size() - tail.size(), tail.size(), tail) == 0 &&
                     Hash64(s.depfile, (uint64_t)s.id * 13 + 5) % 2 == 0;
      if (via_out) *o += "  depfile = " + NinjaValueEscape(s.depfile.substr(0, s.depfile.size() - tail.size())) + "$out.d\n";
      else *o += "  depfile = " + NinjaValueEscape(s.depfile) + "\n";
    }
    if (s.deps_kind == 2 && !DepsOnBuild(s)) *o += "  deps = gcc\n";
    if (s.deps_kind == 3 && !DepsOnBuild(s)) *o += "  deps = msvc\n" + MsvcPrefixBinding(s);
    if (s.rsp) {
      *o += "  rspfile = " + NinjaValueEscape(s.rsp_path) + "\n";
      if (s.rsp_kind == 0) *o += "  rspfile_content = $in\n";
      else if (s.rsp_kind == 1) *o += "  rspfile_content = $in_newline\n";
      else if (s.rsp_literal.empty()) *o += "  rspfile_content = $nothing_at_all\n";
      else *o += "  rspfile_content = " + NinjaValueEscape(s.rsp_literal) + "\n";
    }
    if (!s.pool.empty()) *o += "  pool = " + s.pool + "\n";
    if (DyndepOnRule(s)) *o += "  dyndep = " + NinjaValueEscape(s.dyndep) + "\n";
  }
  *o += "build";
  for (auto& p : s.outs) *o += " " + NinjaPathEscape(p);
  if (!s.imp_outs.empty()) { *o += " |"; for (auto& p : s.imp_outs) *o += " " + NinjaPathEscape(p); }
  if (s.phony) *o += ": phony"; else { snprintf(buf, sizeof buf, ": r%d", s.id); *o += buf; }
  for (auto& p : s.ins) *o += " " + NinjaPathEscape(p);
  if (SelfRef(s) == 1) *o += " " + NinjaPathEscape(s.outs[0]);
  if (!s.imp_ins.empty() || !s.extra_imp.empty()) { *o += " |"; for (auto& p : s.imp_ins) *o += " " + NinjaPathEscape(p); for (auto& p : s.extra_imp) *o += " " + NinjaPathEscape(p); }
  if (!s.oo_ins.empty() || SelfRef(s) == 2) { *o += " ||"; for (auto& p : s.oo_ins) *o += " " + NinjaPathEscape(p); if (SelfRef(s) == 2) *o += " " + NinjaPathEscape(s.outs[0]); }
  if (!s.validations.empty()) { *o += " |@"; for (auto& p : s.validations) *o += " " + NinjaPathEscape(p); }
  *o += "\n";
  if (s.phony && !s.pool.empty()) *o += "  pool = " + s.pool + "\n";
  if (!s.phony && FlagsOnBuild(s)) { if (s.restat) *o += "  restat = 1\n"; if (s.generator) *o += "  generator = 1\n"; }
  if (!s.dyndep.empty() && !DyndepOnRule(s)) *o += "  dyndep = " + NinjaValueEscape(s.dyndep) + "\n";
  if (DepsOnBuild(s)) {
    if (s.deps_kind == 1 || s.deps_kind == 2) *o += "  depfile = " + NinjaValueEscape(s.depfile) + "\n";
    if (s.deps_kind == 2) *o += "  deps = gcc\n";
    if (s.deps_kind == 3) *o += "  deps = msvc\n" + MsvcPrefixBinding(s);
  }
}

static bool InSub(const Scenario& sc, const Stmt& s) {
  return sc.subninja && s.id >= (int)sc.stmts.size() / 2 && !s.regen;
}

std::string Scenario::ManifestText() const {
  std::string o;
  if (!builddir.empty()) o += "builddir = " + builddir + "\n";
  for (auto& p : pools) {
    char buf[64];
    snprintf(buf, sizeof buf, "pool %s\n  depth = %d\n", p.first.c_str(), p.second);
    o += buf;
  }
  for (const Stmt& s : stmts) if (s.alive && !InSub(*this, s)) PrintStmt(*this, s, &o);
  if (subninja) o += "subninja sub.ninja\n";
  if (!defaults.empty()) {
    o += "default";
    for (auto& d : defaults) o += " " + NinjaPathEscape(d);
    o += "\n";
  }
  return o;
}

std::string Scenario::SubManifestText() const {
  std::string o;
  for (const Stmt& s : stmts) if (s.alive && InSub(*this, s)) PrintStmt(*this, s, &o);
  return o;
}

std::string Scenario::DyndepText(const DyndepFile& d) const {
  std::string o = "ninja_dyndep_version = 1\n";
  for (const DyndepEntry& e : d.entries) {
    if (e.stmt < 0 || !stmts[e.stmt].alive) continue;
    o += "build " + NinjaPathEscape(stmts[e.stmt].outs[0]);
    // tools spell the same file in several ways; ninja canonicalises what it reads
    auto spell = [&](const std::string& p) {
      uint64_t style = Hash64(p, (uint64_t)e.stmt * 11 + 4) % 5;
      if (style == 0) return "./" + p;
      if (style == 1) { size_t sl = p.find('/'); return sl == std::string::npos ? "././" + p : p.substr(0, sl) + "//" + p.substr(sl + 1); }
      return p;
    };
    if (!e.imp_outs.empty()) { o += " |"; for (auto& p : e.imp_outs) o += " " + NinjaPathEscape(spell(p)); }
    o += ": dyndep";
    if (!e.imp_ins.empty()) { o += " |"; for (auto& p : e.imp_ins) o += " " + NinjaPathEscape(spell(p)); }
    o += "\n";
    if (e.restat) o += "  restat = 1\n";
  }
  return o;
}

// ------------------------------------------------------------------ content model
std::vector<std::string> ActiveHidden(const Scenario& sc, const Stmt& s, const ContentFn& get) {
  std::vector<std::string> r;
  if (s.hidden.empty()) return r;
  std::string primary;
  bool have = false;
  if (!s.ins.empty() && sc.IsSource(s.ins[0])) have = get(s.ins[0], &primary);
  for (auto& h : s.hidden) {
    if (!have || Hash64(primary + "#" + h) % 4 != 0) r.push_back(h);
  }
  return r;
}

std::vector<std::string> ReadSet(const Scenario& sc, const Stmt& s, const ContentFn& get) {
  std::vector<std::string> r;
  // a command given an alias reads the files the alias stands for
  std::function<void(const std::string&, int)> add_d = [&](const std::string& p, int depth) {
    int pr = sc.Producer(p);
    if (pr >= 0 && sc.stmts[pr].phony) {
      if (depth > 20) return;
      for (auto& q : sc.stmts[pr].ins) add_d(q, depth + 1);
      for (auto& q : sc.stmts[pr].imp_ins) add_d(q, depth + 1);
      return;
    }
    if (std::find(r.begin(), r.end(), p) == r.end()) r.push_back(p);
  };
  auto add = [&](const std::string& p) { add_d(p, 0); };
  for (auto& p : s.ins) add(p);
  for (auto& p : s.imp_ins) add(p);
  if (const DyndepEntry* e = sc.DyndepFor(s.id)) for (auto& p : e->imp_ins) add(p);
  for (auto& p : ActiveHidden(sc, s, get)) add(p);
  return r;
}

std::string OutputContent(const Stmt& s, int out_index, const std::vector<std::pair<std::string, std::string>>& snapshot,
                          const std::string& rsp_content) {
  std::vector<std::pair<std::string, std::string>> v = snapshot;
  std::sort(v.begin(), v.end());
  uint64_t h = Hash64(std::string("stmt"), 17 + (uint64_t)s.key * 1000003ull + (uint64_t)out_index);
  for (auto& kv : v) {
    // what a command computes does not depend on which files a source includes
    // (only on what they contain), and an empty file contributes nothing
    std::string c = kv.second;
    if (c.compare(0, 4, "src ") == 0) { size_t i = c.rfind(" i"); if (i != std::string::npos) c.erase(i); }
    if (c.empty()) continue;
    h = Hash64(kv.first, h); h = Hash64(c, h);
  }
  if (s.rsp) h = Hash64(rsp_content, h);
  char buf[96];
  snprintf(buf, sizeof buf, "out %d.%d k%d %016llx\n", s.id, out_index, s.key, (unsigned long long)h);
  return buf;
}

bool CleanEval::Content(const std::string& path, std::string* out) {
  auto m = memo.find(path);
  if (m != memo.end()) { *out = m->second; return true; }
  int pr = sc.Producer(path);
  if (pr < 0) return source(path, out);
  const Stmt& s = sc.stmts[pr];
  if (s.phony) return false;
  if (in_progress.count(pr)) return false;   // cyclic scenario: no clean build exists
  if (const DyndepFile* d = sc.FindDyndep(path)) {
    if (d->producer == pr) { *out = sc.DyndepText(*d); memo[path] = *out; return true; }
  }
  if (s.regen && path == "build.ninja") { *out = sc.ManifestText(); memo[path] = *out; return true; }
  if (s.regen && path == "sub.ninja") { *out = sc.SubManifestText(); memo[path] = *out; return true; }
  in_progress.insert(pr);
  ContentFn get = [this](const std::string& p, std::string* c) { return Content(p, c); };
  std::vector<std::pair<std::string, std::string>> snap;
  for (auto& p : ReadSet(sc, s, get)) {
    std::string c;
    if (!Content(p, &c)) c = "<missing>";
    snap.emplace_back(p, c);
  }
  in_progress.erase(pr);
  std::vector<std::string> outs = sc.DeclaredOuts(pr);
  std::string rsp = sc.RspContent(s);
  bool found = false;
  for (size_t i = 0; i < outs.size(); i++) {
    std::string c = OutputContent(s, (int)i, snap, rsp);
    if (const DyndepFile* d = sc.FindDyndep(outs[i])) if (d->producer == pr) c = sc.DyndepText(*d);
    memo[outs[i]] = c;
    if (outs[i] == path) { *out = c; found = true; }
  }
  return found;
}

// ------------------------------------------------------------------ generator
namespace {
struct Gen {
  Tape& t; int st; const GenParams& gp; Scenario sc;
  uint32_t feat;
  int name_style = 0;
  Gen(Tape& tape, int stream, const GenParams& p) : t(tape), st(stream), gp(p) {}
  uint32_t C(uint32_t n) { return t.Choice(st, n); }
  bool Has(uint32_t f) const { return (feat & f) != 0; }
  bool Flip(uint32_t f, uint32_t num, uint32_t den) { uint32_t c = C(den); return Has(f) && c < num; }

  std::string Deco(const std::string& base, int salt) {
    if (!Has(F_HOSTILE_NAMES)) return base;
    static const char* kDeco[] = {"", " sp", "$d", "'q", ";sc", "*", "&a", "\"dq", "(p)", "\\b", "~t", "#h", "\xc3\xa9", "a:b", "%p", ">r"};
    int k = (int)(Hash64(base, (uint64_t)name_style * 131 + salt) % 24);
    if (k == 16 || k == 17) return (k == 16 ? "'" : "\"") + base;   // a name that BEGINS with a quote
    // control bytes are legal in a manifest too (everything but NUL and newline); a depfile cannot spell them
    if (k >= 18 && k <= 20 && !(Has(F_DEPFILE) || Has(F_DEPSGCC))) { static const char* kCtl[] = {"\x0bvt", "\x01c", "\x7f" "d"}; return base + kCtl[k - 18]; }
    if (k >= 16) return base;
    // depfile syntax has no spelling for ; * > - a compiler could not report such a name, so
    // scenarios with depfiles use the escapable ones (space, #, $) instead
    if (Has(F_DEPFILE) || Has(F_DEPSGCC)) { if (k == 4) k = 1; else if (k == 5) k = 11; else if (k == 15) k = 2; }
    return base + kDeco[k];
  }

  std::vector<std::string> avail;   // paths usable as inputs so far
  std::vector<std::string> gen_outs; // generated, non-phony outputs so far

  std::string PickInput() { return avail[C((uint32_t)avail.size())]; }

  void AddUnique(std::vector<std::string>& v, const std::string& p, const Stmt& s) {
    if (std::find(v.begin(), v.end(), p) != v.end()) return;
    for (auto* w : {&s.ins, &s.imp_ins, &s.oo_ins}) if (std::find(w->begin(), w->end(), p) != w->end()) return;
    v.push_back(p);
  }

  Scenario Run() {
    // swarm: each run enables a random subset of the allowed features
    uint32_t mask = 0;
    for (int b = 0; b < 24; b++) if (C(100) < 65) mask |= 1u << b;
    if (C(10) == 0) mask = F_ALL;
    feat = gp.features & mask;
    sc.features = feat;
    name_style = (int)C(1000);
    int nsrc = 1 + (int)C((uint32_t)gp.max_sources);
    for (int i = 0; i < nsrc; i++) {
      char b[16]; snprintf(b, sizeof b, "s%d.c", i);
      sc.sources.push_back(Deco(b, 1));
      avail.push_back(sc.sources.back());
    }
    if (Has(F_BUILDDIR) && C(4) == 0) sc.builddir = "bd";
    if (Has(F_POOLS)) {
      int np = 1 + (int)C(2);
      for (int i = 0; i < np; i++) { char b[8]; snprintf(b, sizeof b, "p%d", i + 1); sc.pools[b] = 1 + (int)C(3); }
      // (depth 0 is legal and means "no limit": one scenario in eight has such a pool)
      if (Hash64(std::string("pooldepth"), (uint64_t)sc.features * 3 + sc.sources.size()) % 8 == 0) sc.pools.begin()->second = 0;
    }
    int n = 2 + (int)C((uint32_t)std::max(1, gp.max_stmts - 1));
    for (int i = 0; i < n; i++) MakeStmt(i);
    MakeAliasLadder();
    if (Has(F_REGEN) && C(3) == 0) MakeRegen();
    if (Has(F_DYNDEP)) MakeDyndeps();
    if (Has(F_VALIDATION)) MakeValidations();
    if (gp.cycles && C(10) < 7) MakeCycle();
    if (Has(F_DEFAULT) && C(3) == 0) {
      int nd = 1 + (int)C(2);
      for (int i = 0; i < nd; i++) {
        const Stmt& s = sc.stmts[C((uint32_t)sc.stmts.size())];
        if (s.regen) continue;
        if (std::find(sc.defaults.begin(), sc.defaults.end(), s.outs[0]) == sc.defaults.end()) sc.defaults.push_back(s.outs[0]);
      }
    }
    if (Has(F_SUBNINJA) && sc.stmts.size() >= 4 && C(3) == 0) sc.subninja = true;
    // half of the generators of a split manifest declare both files and leave alone the one
    // that did not change (restat): a regeneration may then rewrite sub.ninja only
    if (sc.subninja)
      for (Stmt& s : sc.stmts)
        if (s.regen) { uint64_t x[2] = {(uint64_t)sc.stmts.size(), sc.features}; if (Hash64(x, sizeof x, 77) % 2 == 0) { s.restat = true; s.imp_outs.push_back("sub.ninja"); } }
    return sc;
  }

  void MakeStmt(int i) {
    Stmt s;
    s.id = i;
    s.key = (int)C(50);
    char b[32];
    std::string dir = (Has(F_SUBDIRS) && C(4) == 0) ? (std::string("d") + std::to_string(i) + "/") : "";
    if (Flip(F_PHONY, 1, 7) && i > 0) {
      s.phony = true;
      snprintf(b, sizeof b, "ph%d", i);
      s.outs.push_back(Deco(b, 2));
      // one alias in four sits in a pool (a `pool =` binding is legal on any build statement): it
      // runs no command but passes through the pool's accounting like one
      if (!sc.pools.empty() && Hash64(s.outs[0], (uint64_t)i * 5 + (uint64_t)s.key * 101 + 2) % 4 == 0) {
        auto it = sc.pools.begin(); std::advance(it, (long)(Hash64(s.outs[0], 77) % sc.pools.size())); s.pool = it->first;
      }
      // a quarter of the aliases name two things at once
      if (Has(F_MULTIOUT) && Hash64(s.outs[0], (uint64_t)i * 3 + 1) % 4 == 0) { snprintf(b, sizeof b, "ph%db", i); s.outs.push_back(Deco(b, 6)); }
      else if (Has(F_MULTIOUT) && Hash64(s.outs[0], (uint64_t)i * 3 + 1) % 4 == 1) { snprintf(b, sizeof b, "ph%di", i); s.imp_outs.push_back(Deco(b, 7)); }
      int nin = (int)C(4);
      if (nin == 0 && !Has(F_PHONY_NOINPUT)) nin = 1;
      for (int k = 0; k < nin; k++) AddUnique(s.ins, PickInput(), s);
      if (Flip(F_ORDERONLY, 1, 4)) AddUnique(s.oo_ins, PickInput(), s);
      sc.stmts.push_back(s);
      for (auto& o : s.outs) avail.push_back(o);
      for (auto& o : s.imp_outs) avail.push_back(o);
      return;
    }
    snprintf(b, sizeof b, "o%d", i);
    s.outs.push_back(dir + Deco(b, 3));
    if (Flip(F_MULTIOUT, 1, 4)) { snprintf(b, sizeof b, "o%db", i); s.outs.push_back(dir + Deco(b, 4)); }
    if (Flip(F_MULTIOUT, 1, 6)) {
      snprintf(b, sizeof b, "o%di", i);
      // half of the implicit outputs live in a directory of their own (which nothing else creates)
      std::string idir = (Has(F_SUBDIRS) && Hash64(std::string(b), (uint64_t)i * 7 + 2) % 2 == 0) ? "x" + std::to_string(i) + "/" : dir;
      // (a third of those directories lie *below* the directory of the first output)
      if (idir != dir && !dir.empty() && Hash64(std::string(b), (uint64_t)i * 7 + 3) % 3 == 0) idir = dir + idir;
      s.imp_outs.push_back(idir + Deco(b, 5));
    }
    int nin = 1 + (int)C(3);
    for (int k = 0; k < nin; k++) AddUnique(s.ins, PickInput(), s);
    if (Has(F_IMPLICIT)) { int m = (int)C(3); for (int k = 0; k < m; k++) AddUnique(s.imp_ins, PickInput(), s); }
    if (Has(F_ORDERONLY)) { int m = (int)C(3); for (int k = 0; k < m; k++) AddUnique(s.oo_ins, PickInput(), s); }
    // one statement in fifteen names its first input a second time - again as an explicit input, or as
    // an implicit or order-only one (legal; the node then lists the statement twice among its users)
    if (!s.ins.empty()) {
      uint64_t hd = Hash64(s.outs[0], (uint64_t)i * 19 + (uint64_t)s.key * 101 + 8);
      if (hd % 15 == 0) {
        std::vector<std::string>& v = (hd >> 8) % 3 == 0 ? s.ins : (hd >> 8) % 3 == 1 ? s.imp_ins : s.oo_ins;
        if (&v != &s.imp_ins || Has(F_IMPLICIT)) if (&v != &s.oo_ins || Has(F_ORDERONLY)) v.push_back(s.ins[0]);
      }
    }
    s.restat = Flip(F_RESTAT, 1, 4);
    s.generator = Flip(F_GENERATOR, 1, 8);
    s.description = Flip(F_DESCRIPTION, 1, 3);
    uint32_t dk = C(8);
    if (dk == 0 && Has(F_DEPFILE)) s.deps_kind = 1;
    else if ((dk == 1 || dk == 2) && Has(F_DEPSGCC)) s.deps_kind = 2;
    else if (dk == 3 && Has(F_DEPSMSVC)) s.deps_kind = 3;
    if (s.deps_kind == 1 || s.deps_kind == 2) {
      bool sub = Has(F_SUBDIRS) && C(3) == 0;
      s.depfile = (sub ? std::string("deps/") : std::string("")) + s.outs[0] + ".d";
      // (one in four of the others: a directory of its own below the output's directory, d3/o3 -> d3/dep/o3.d)
      if (!sub && Has(F_SUBDIRS) && s.outs[0].find('/') != std::string::npos && Hash64(s.outs[0], (uint64_t)i * 23 + 9) % 4 == 0) {
        size_t sl = s.outs[0].rfind('/');
        s.depfile = s.outs[0].substr(0, sl + 1) + "dep/" + s.outs[0].substr(sl + 1) + ".d";
      }
      if (s.outs.size() > 1 && s.deps_kind == 2) {
        // deps = gcc needs a single explicit output in this ninja
        s.outs.resize(1);
      }
    }
    if (s.deps_kind == 3 && s.outs.size() > 1) s.outs.resize(1);
    if ((s.deps_kind == 2 || s.deps_kind == 3)) s.imp_outs.clear();
    if (s.deps_kind) {
      int nh = 1 + (int)C(2);
      for (int k = 0; k < nh; k++) {
        if (Has(F_GEN_HEADERS) && !gen_outs.empty() && C(3) == 0) {
          std::string h = gen_outs[C((uint32_t)gen_outs.size())];
          bool declared = false;
          for (auto* w : {&s.ins, &s.imp_ins, &s.oo_ins}) if (std::find(w->begin(), w->end(), h) != w->end()) declared = true;
          if (!declared) {
            if (!Has(F_HIDDEN_NOPATH) || C(2) == 0) s.oo_ins.push_back(h);
          }
          if (std::find(s.hidden.begin(), s.hidden.end(), h) == s.hidden.end()) s.hidden.push_back(h);
        } else {
          std::string h = sc.sources[C((uint32_t)sc.sources.size())];
          if (std::find(s.ins.begin(), s.ins.end(), h) != s.ins.end()) continue;
          if (std::find(s.hidden.begin(), s.hidden.end(), h) == s.hidden.end()) s.hidden.push_back(h);
        }
      }
    }
    if (Flip(F_RSP, 1, 5)) {
      s.rsp = true;
      // ($rspfile is expanded verbatim into the command: keeping its name free of
      // shell syntax is the manifest author's business, so it gets a plain name)
      s.rsp_path = dir + "r" + std::to_string(i) + ".rsp";
      s.rsp_kind = (int)C(3);
      if (s.rsp_kind == 2) {
        uint32_t n = C(100);
        // one in ten: the content is a variable that expands to nothing - the (empty)
        // response file must exist all the same
        s.rsp_literal = n % 10 == 9 ? std::string() : "lit" + std::to_string(n) + " -x y";
      }
    }
    if (Has(F_POOLS) && !sc.pools.empty() && C(3) == 0) {
      auto it = sc.pools.begin(); std::advance(it, C((uint32_t)sc.pools.size())); s.pool = it->first;
    } else if (Flip(F_CONSOLE, 1, 8)) {
      // a console command's output is not captured, so it cannot report
      // dependencies through /showIncludes-style output
      if (s.deps_kind != 3) s.pool = "console";
    }
    // one statement in twelve has no explicit input ($in is empty), half of those no input at
    // all (a stamp or version header)
    if (i > 0 && Hash64(s.outs[0], (uint64_t)i * 9 + 4) % 12 == 0) {
      s.ins.clear();
      if (Hash64(s.outs[0], (uint64_t)i * 9 + 5) % 2 == 0) { s.imp_ins.clear(); s.oo_ins.clear(); }
      // (a generated file the command includes keeps its declared path: without one a from-scratch build is
      // a race and "clean build" means nothing - unless the profile asks for exactly that)
      if (!Has(F_HIDDEN_NOPATH))
        for (auto& h : s.hidden) if (std::find(gen_outs.begin(), gen_outs.end(), h) != gen_outs.end()) {
          bool declared = false;
          for (auto* w : {&s.ins, &s.imp_ins, &s.oo_ins}) if (std::find(w->begin(), w->end(), h) != w->end()) declared = true;
          if (!declared) s.oo_ins.push_back(h);
        }
    }
    sc.stmts.push_back(s);
    for (auto& o : s.outs) { avail.push_back(o); gen_outs.push_back(o); }
    for (auto& o : s.imp_outs) { avail.push_back(o); gen_outs.push_back(o); }
  }

  // One scenario in five with aliases and restat: a ladder of two or three aliases on top of a
  // restat statement's output, and a command that reads the top one. When the restat command
  // leaves its output alone, several aliases and a command leave the plan at once while other
  // work may still be pending - the plan's bookkeeping of wanted edges and commands must agree.
  // (No tape draws: the choice is a hash of the scenario so far.)
  void MakeAliasLadder() {
    if (!Has(F_PHONY) || !Has(F_RESTAT) || gp.cycles) return;
    uint64_t x[2] = {(uint64_t)sc.stmts.size(), sc.features};
    uint64_t h = Hash64(x, sizeof x, 1234);
    if (h % 5 != 0) return;
    int base = -1;
    for (const Stmt& q : sc.stmts) if (!q.phony && q.restat && !q.generator && !q.outs.empty() && q.pool != "console") { base = q.id; break; }
    if (base < 0) return;
    std::string below = sc.stmts[base].outs[0];
    int rungs = 2 + (int)((h >> 8) % 2);
    char b[32];
    for (int k = 0; k < rungs; k++) {
      Stmt a;
      a.id = (int)sc.stmts.size();
      a.phony = true;
      snprintf(b, sizeof b, "lad%d", a.id);
      a.outs.push_back(Deco(b, 2));
      a.ins.push_back(below);
      below = a.outs[0];
      sc.stmts.push_back(a);
      avail.push_back(below);
    }
    Stmt c;
    c.id = (int)sc.stmts.size();
    c.key = (int)((h >> 16) % 50);
    snprintf(b, sizeof b, "o%d", c.id);
    c.outs.push_back(Deco(b, 3));
    c.ins.push_back(below);
    sc.stmts.push_back(c);
    avail.push_back(c.outs[0]); gen_outs.push_back(c.outs[0]);
  }

  void MakeRegen() {
    Stmt s;
    s.id = (int)sc.stmts.size();
    s.key = 0;
    s.regen = true;
    s.generator = true;
    s.outs.push_back("build.ninja");
    sc.sources.push_back("gen.src");
    s.ins.push_back("gen.src");
    sc.stmts.push_back(s);
  }

  // the producer declares the dyndep file as an explicit or (half of the time) an implicit output
  static void AddDyndepOutput(Stmt& prod, const std::string& path) {
    if (Hash64(path, (uint64_t)prod.id * 7 + 3) % 2 == 0) prod.imp_outs.push_back(path);
    else prod.outs.push_back(path);
  }

  bool DependsOn(int a, int b) const {  // does statement a (transitively) depend on b via declared inputs?
    if (a == b) return true;
    const Stmt& s = sc.stmts[a];
    for (auto* w : {&s.ins, &s.imp_ins, &s.oo_ins})
      for (auto& p : *w) { int pr = sc.Producer(p); if (pr >= 0 && pr < a && DependsOn(pr, b)) return true; }
    return false;
  }

  std::vector<Stmt> island;
  void MakeDyndeps() {
    MakeDyndepsInner();
    // ids must stay positions: the island statements come last, in the order they were numbered
    for (auto& st : island) sc.stmts.push_back(st);
  }
  void MakeDyndepsInner() {
    int nd = (int)C(3);
    for (int d = 0; d < nd; d++) {
      std::vector<int> cands;
      for (const Stmt& s : sc.stmts) if (!s.phony && !s.regen && s.dyndep.empty() && s.id >= 1) cands.push_back(s.id);
      if (cands.empty()) return;
      int first = cands[C((uint32_t)cands.size())];
      DyndepFile dd;
      char b[16]; snprintf(b, sizeof b, "dd%d", d);
      dd.path = b;
      // produced by a statement older than every consumer, or a plain source file
      std::vector<int> prods;
      for (const Stmt& s : sc.stmts) if (!s.phony && !s.regen && s.id < first && s.deps_kind < 2) prods.push_back(s.id);
      if (!prods.empty() && C(3) != 0) {
        dd.producer = prods[C((uint32_t)prods.size())];
        AddDyndepOutput(sc.stmts[dd.producer], dd.path);
      } else {
        dd.producer = -1;
      }
      int ncons = 1 + (int)C(2);
      for (int c = 0; c < ncons; c++) {
        int cid = c == 0 ? first : cands[C((uint32_t)cands.size())];
        if (cid < first) continue;
        Stmt& s = sc.stmts[cid];
        if (!s.dyndep.empty()) continue;
        s.dyndep = dd.path;
        if (C(2) == 0) s.imp_ins.push_back(dd.path); else s.oo_ins.push_back(dd.path);
        DyndepEntry e;
        e.stmt = cid;
        int ni = (int)C(3);
        for (int k = 0; k < ni; k++) {
          // inputs from sources or outputs of older statements (keeps the graph acyclic)
          std::vector<std::string> pool(sc.sources.begin(), sc.sources.end());
          for (const Stmt& q : sc.stmts) if (q.id < cid && !q.regen) for (auto& o : q.outs) if (o != dd.path) pool.push_back(o);
          std::string p = pool[C((uint32_t)pool.size())];
          if (!s.oo_ins.empty() && C(3) == 0) p = s.oo_ins[C((uint32_t)s.oo_ins.size())];
          // half of the time, when there is one: the output of a statement that itself waits for
          // an order-only input someone has to build (the part of the graph only this dyndep
          // information connects to the consumer)
          std::vector<std::string> pool2;
          for (const Stmt& q : sc.stmts) {
            if (q.id >= cid || q.regen || q.phony) continue;
            bool has = false;
            for (auto& z : q.oo_ins) { int pz = sc.Producer(z); if (pz >= 0 && pz != q.id && !sc.stmts[pz].phony) has = true; }
            if (has) for (auto& o : q.outs) if (o != dd.path) pool2.push_back(o);
          }
          if (!pool2.empty() && C(2) == 0) p = pool2[C((uint32_t)pool2.size())];
          if (p == "gen.src" || p == dd.path || sc.FindDyndep(p)) continue;
          bool dup = std::find(e.imp_ins.begin(), e.imp_ins.end(), p) != e.imp_ins.end();
          // (a file the manifest only orders before the statement may well turn out
          // to be a real input: order-only in the manifest, implicit in the dyndep file)
          for (auto* w : {&s.ins, &s.imp_ins}) if (std::find(w->begin(), w->end(), p) != w->end()) dup = true;
          if (!dup) e.imp_ins.push_back(p);
        }
        // one entry in three adds an "island": two statements that nothing else needs - the
        // second waits (order-only) for the first - and the output of the second as an input.
        // Only the dyndep information connects them to the consumer.
        if (Has(F_ORDERONLY) && C(3) == 0 && sc.stmts.size() < 40) {
          int base = (int)(sc.stmts.size() + island.size());
          Stmt z; z.id = base; z.key = (int)C(50);
          z.outs.push_back("isl" + std::to_string(base) + "z");
          z.ins.push_back(sc.sources[C((uint32_t)sc.sources.size())]);
          Stmt y; y.id = base + 1; y.key = (int)C(50);
          y.outs.push_back("isl" + std::to_string(base) + "y");
          y.ins.push_back(sc.sources[C((uint32_t)sc.sources.size())]);
          y.oo_ins.push_back(z.outs[0]);
          island.push_back(z); island.push_back(y);
          e.imp_ins.push_back(y.outs[0]);
          // (the reference to s stays valid: the island is appended after the loop)
        }
        if (C(3) == 0 && s.deps_kind < 2) {
          char ob[32]; snprintf(ob, sizeof ob, "o%dx", cid); e.imp_outs.push_back(ob);
          // Half of the time, when the dyndep file is a source file (read while the graph is scanned): a
          // later statement names that output in the manifest itself, as an implicit input behind an explicit
          // dependency on the producer's main output. Until the dyndep file is loaded the path is a plain
          // input without a rule - a node that is consumed but, as far as the manifest goes, not produced.
          // (No tape draws: a hash decides.)
          if (dd.producer < 0 && Hash64(std::string(ob), (uint64_t)cid * 11 + 6) % 2 == 0) {
            for (Stmt& q : sc.stmts) {
              if (q.id <= cid || q.regen || q.phony || !q.dyndep.empty() || q.outs.empty()) continue;
              bool names = false;
              for (auto* w : {&q.ins, &q.imp_ins, &q.oo_ins}) if (std::find(w->begin(), w->end(), s.outs[0]) != w->end()) names = true;
              if (names && (q.ins.empty() || q.ins[0] != s.outs[0])) continue;
              if (!names) q.ins.insert(q.ins.begin(), s.outs[0]);
              q.imp_ins.push_back(ob);
              break;
            }
          }
        }
        e.restat = C(4) == 0;
        dd.entries.push_back(e);
      }
      if (dd.entries.empty()) {
        if (dd.producer >= 0) for (auto* v : {&sc.stmts[dd.producer].outs, &sc.stmts[dd.producer].imp_outs}) v->erase(std::remove(v->begin(), v->end(), dd.path), v->end());
        continue;
      }
      if (dd.producer < 0) sc.sources.push_back(dd.path);
      sc.dyndeps.push_back(dd);
    }
  }

  // C17: b depends on a; make a depend on one of b's outputs.
  void MakeCycle() {
    std::vector<std::pair<int, int>> pairs;
    for (const Stmt& b : sc.stmts) for (const Stmt& a : sc.stmts)
      if (!a.regen && !b.regen && (!a.phony || a.AllOuts().size() >= 2) && a.id <= b.id && (a.id == b.id || DependsOn(b.id, a.id))) pairs.emplace_back(a.id, b.id);
    if (pairs.empty()) return;
    auto pr = pairs[C((uint32_t)pairs.size())];
    Stmt& a = sc.stmts[pr.first];
    const Stmt& b = sc.stmts[pr.second];
    std::vector<std::string> bouts = b.AllOuts();
    std::string back = bouts[C((uint32_t)bouts.size())];
    if (sc.FindDyndep(back)) return;
    uint32_t kind = C(4);
    if ((kind == 1 || kind == 2) && !a.dyndep.empty()) kind = 0;
    if (kind == 3 && a.deps_kind == 0) kind = 0;
    if (kind == 0) {
      uint32_t k = C(3);
      std::vector<std::string>& v = k == 0 ? a.ins : k == 1 ? a.imp_ins : a.oo_ins;
      v.push_back(back);
    } else if (kind == 1 || kind == 2) {
      DyndepFile dd;
      dd.path = "ddc";
      dd.producer = -1;
      // variant: the cycle is closed by an implicit OUTPUT the dyndep file declares - b (which
      // depends on a) is said to produce a file that a reads
      Stmt& bb = sc.stmts[pr.second];
      std::string a_src;
      for (auto* w : {&a.ins, &a.imp_ins}) for (auto& p : *w) if (a_src.empty() && sc.IsSource(p) && !sc.FindDyndep(p) && p != "gen.src") a_src = p;
      if (!a_src.empty() && bb.dyndep.empty() && !bb.phony && Hash64(back, (uint64_t)a.id * 5 + bb.id) % 3 == 0) {
        if (kind == 2) {
          std::vector<int> prods;
          for (const Stmt& q : sc.stmts) if (!q.phony && !q.regen && q.id < a.id && q.deps_kind < 2) prods.push_back(q.id);
          if (prods.empty()) kind = 1; else { dd.producer = prods[C((uint32_t)prods.size())]; AddDyndepOutput(sc.stmts[dd.producer], dd.path); }
        }
        bb.dyndep = dd.path;
        if (C(2)) bb.imp_ins.push_back(dd.path); else bb.oo_ins.push_back(dd.path);
        DyndepEntry e;
        e.stmt = bb.id;
        e.imp_outs.push_back(a_src);
        dd.entries.push_back(e);
        if (dd.producer < 0) sc.sources.push_back(dd.path);
        sc.dyndeps.push_back(dd);
        sc.cycle_kind = (int)kind;
        sc.cycle_note = "cycle: statement " + std::to_string(bb.id) + " (which depends on statement " + std::to_string(a.id) + ") is declared by " + dd.path + " to produce '" + a_src + "', which statement " + std::to_string(a.id) + " reads";
        return;
      }
      if (kind == 2) {
        std::vector<int> prods;
        for (const Stmt& q : sc.stmts) if (!q.phony && !q.regen && q.id < a.id && q.deps_kind < 2) prods.push_back(q.id);
        if (prods.empty()) kind = 1; else { dd.producer = prods[C((uint32_t)prods.size())]; AddDyndepOutput(sc.stmts[dd.producer], dd.path); }
      }
      a.dyndep = dd.path;
      if (C(2)) a.imp_ins.push_back(dd.path); else a.oo_ins.push_back(dd.path);
      DyndepEntry e;
      e.stmt = a.id;
      e.imp_ins.push_back(back);
      dd.entries.push_back(e);
      if (dd.producer < 0) sc.sources.push_back(dd.path);
      sc.dyndeps.push_back(dd);
    } else {
      if (std::find(a.hidden.begin(), a.hidden.end(), back) == a.hidden.end()) a.hidden.push_back(back);
    }
    sc.cycle_kind = (int)kind;
    sc.cycle_note = "cycle: statement " + std::to_string(a.id) + " now needs '" + back + "' of statement " + std::to_string(b.id) + " (kind " + std::to_string(kind) + ")";
  }

  void MakeValidations() {
    int nv = (int)C(3);
    for (int k = 0; k < nv; k++) {
      Stmt& s = sc.stmts[C((uint32_t)sc.stmts.size())];
      if (s.regen) continue;
      const Stmt& v = sc.stmts[C((uint32_t)sc.stmts.size())];
      if (v.regen || v.id == s.id) continue;
      if (std::find(s.validations.begin(), s.validations.end(), v.outs[0]) == s.validations.end())
        s.validations.push_back(v.outs[0]);
    }
  }
};
}  // namespace

Scenario GenerateScenario(Tape& t, int stream, const GenParams& gp) {
  Gen g(t, stream, gp);
  return g.Run();
}

}  // namespace sim
