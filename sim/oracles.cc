// Oracles evaluated after every invocation (the ones that need the exact
// instant a command starts live in World::OnSpawn).
#include "world.h"

#include <signal.h>
#include <stdio.h>
#include <string.h>
#include <stdlib.h>
#include <sys/wait.h>
#include <algorithm>
#include <functional>

namespace sim {

static std::string S(long v) { return std::to_string(v); }

// ninja's mapping from a wait status to its own exit status
static int MapStatus(int st) {
  if (WIFEXITED(st)) return WEXITSTATUS(st);
  if (WIFSIGNALED(st)) {
    int sg = WTERMSIG(st);
    if (sg == SIGINT || sg == SIGTERM || sg == SIGHUP) return 130;
    return 128 + sg;   // the shell convention, core file or not
  }
  return (st + 128) & 0xff;
}

static bool IoFault(const InvRecord& r) {
  for (auto& kv : r.res.fired) if (kv.first.compare(0, 9, "io_error_") == 0) return true;
  return false;
}

static bool NormalExit(const InvRecord& r) { return r.res.end == ProcResult::kExit; }

static std::string HashCmdFor(const Scenario& sc, const Stmt& s) {
  std::string c = sc.CommandLine(s);
  std::string rc = sc.RspContent(s);
  if (!rc.empty()) c += ";rspfile=" + rc;
  return c;
}


// ------------------------------------------------------------------ C01
void World::CheckContent(const InvRecord& r, const char* prop) {
  if (!r.ok() || r.external_edit || r.plan.dry || !r.plan.tool.empty()) return;
  std::vector<std::string> targets = EffectiveTargets(r.plan);
  std::set<int> cl = Closure(targets, true);
  for (const Stmt& s : sc.stmts) if (s.alive && s.regen) cl.insert(s.id);
  const Scenario& scr = sc;
  Kernel& kr = k;
  CleanEval ce(sc, [&scr, &kr](const std::string& p, std::string* c) {
    if (scr.Producer(p) >= 0) return false;
    return kr.ReadFile(p, c);
  });
  long checked = 0;
  for (int id : cl) {
    const Stmt& s = sc.stmts[id];
    if (s.phony) continue;
    for (auto& o : sc.DeclaredOuts(id)) {
      std::string want, have;
      if (!ce.Content(o, &want)) continue;
      checked++;
      if (!k.ReadFile(o, &have)) {
        Report(prop, "stale_output", "after a successful build output '" + o + "' of statement " + S(id) + " does not exist");
      } else if (have != want) {
        Report(prop, "stale_output", "after a successful build '" + o + "' holds '" + have.substr(0, 60) + "' but a clean build gives '" + want.substr(0, 60) + "'");
      }
    }
  }
  stats->n["content_checked"] += checked;
}

// ------------------------------------------------------------------ C04 (a)
void World::CheckOrdering(const InvRecord& r) {
  for (const SpawnRec& x : r.spawns) {
    for (int q : x.closure) {
      for (const SpawnRec& y : r.spawns) {
        if (y.stmt != q || y.epoch != x.epoch || &y == &x) continue;
        if (y.seq > x.seq) {
          Report("C04", "started_too_early", "statement " + S(x.stmt) + " started before its prerequisite " + S(q) + " was even started");
        } else if (y.reap_seq == 0 || y.reap_seq > x.seq) {
          Report("C04", "started_too_early", "statement " + S(x.stmt) + " started while its prerequisite " + S(q) + " was still running");
        } else if (y.reap_status != 0) {
          Report("C04", "started_too_early", "statement " + S(x.stmt) + " started although its prerequisite " + S(q) + " failed");
          Report("C05", "ran_after_failure", "statement " + S(x.stmt) + " started after the failure of " + S(q) + " it depends on");
        } else {
          stats->n["ordered_pairs"]++;
        }
      }
    }
  }
}

// ------------------------------------------------------------------ C05

void World::CheckFailures(const InvRecord& r) {
  if (r.plan.dry || !r.plan.tool.empty()) return;
  // a needed source file is missing: an error before anything is started
  // (a build that stops on a graph error - possibly mid-build, when a dyndep file reveals the need -
  // is not an ordinary failed build: none of the rules below is meant for it)
  if (!missing_source.empty() && !(r.res.end == ProcResult::kExit && !r.fault_fired && !r.interrupted)) return;
  if (!missing_source.empty()) {
    bool needed = false;
    for (int id : Closure(EffectiveTargets(r.plan), true)) {
      const Stmt& s = sc.stmts[id];
      for (auto* v : {&s.ins, &s.imp_ins}) if (std::find(v->begin(), v->end(), missing_source) != v->end()) needed = true;
    }
    if (needed) {
      stats->n["missing_source_needed"]++;
      stats->nontrivial["C05"] = true;
      std::string all = r.res.err + r.res.out;
      // (bringing the manifest itself up to date comes first and is not part of the build that needs the file:
      // the generator's command does not count as "a command run before the report")
      long started = 0;
      for (const SpawnRec& x : r.spawns) if (!sc.stmts[x.stmt].regen) started++;
      // (another error may legitimately come first - an unknown target, say - as long as nothing is started)
      if (r.res.exit_code == 0 || (all.find("missing and no known rule to make it") == std::string::npos && started > 0))
        Report("C05", "missing_source_ignored", "source " + missing_source + " is missing and a needed statement names it as an input, but ninja " + (r.res.exit_code == 0 ? "exited with status 0" : "did not say so"));
      else if (started > 0) {
        // "before anything is started" only holds for what the manifest alone says: a need that
        // a dyndep file produced in this very build reveals cannot be known earlier
        bool needed_by_manifest = false;
        std::set<int> seen;
        std::vector<std::string> todo = EffectiveTargets(r.plan);
        while (!todo.empty()) {
          std::string t = todo.back(); todo.pop_back();
          int pr = -1;
          for (const Stmt& m : sc.stmts) if (m.alive) for (auto& o2 : m.AllOuts()) if (o2 == t) pr = m.id;
          if (pr < 0 || !seen.insert(pr).second) continue;
          const Stmt& s = sc.stmts[pr];
          for (auto* v : {&s.ins, &s.imp_ins}) for (auto& q : *v) { if (q == missing_source) needed_by_manifest = true; todo.push_back(q); }
          for (auto* v : {&s.oo_ins, &s.validations}) for (auto& q : *v) todo.push_back(q);
        }
        if (needed_by_manifest)
          Report("C05", "missing_source_ignored", "source " + missing_source + " is missing; ninja reported it only after starting " + S(started) + " command(s)");
      }
    }
    return;
  }
  std::vector<const SpawnRec*> failed;
  for (const SpawnRec& x : r.spawns) if (x.reap_seq && x.reap_status != 0) failed.push_back(&x);
  std::sort(failed.begin(), failed.end(), [](const SpawnRec* a, const SpawnRec* b) { return a->reap_seq < b->reap_seq; });
  bool interrupted_child = false;
  for (auto* f : failed) if (MapStatus(f->reap_status) == 130) interrupted_child = true;
  bool clean_run = NormalExit(r) && !IoFault(r) && !r.interrupted && !interrupted_child && r.epochs <= 1;

  // nothing that depends on a failed command starts afterwards
  for (auto* f : failed)
    for (const SpawnRec& x : r.spawns)
      if (x.epoch == f->epoch && x.seq > f->reap_seq && x.closure.count(f->stmt))
        Report("C05", "ran_after_failure", "statement " + S(x.stmt) + " started after the failure of " + S(f->stmt) + " it depends on");

  // after the N-th failure nothing new starts
  if (r.plan.k > 0 && (int)failed.size() >= r.plan.k && r.epochs <= 1) {
    uint64_t cut = failed[r.plan.k - 1]->reap_seq;
    for (const SpawnRec& x : r.spawns)
      if (x.seq > cut) Report("C05", "ran_after_failure", "statement " + S(x.stmt) + " started after failure number " + S(r.plan.k) + " with -k" + S(r.plan.k));
    stats->n["k_budget_exhausted"]++;
  }

  if (clean_run && !failed.empty()) {
    stats->nontrivial["C05"] = true;
    // exit status comes from a failed command
    bool match = false;
    for (auto* f : failed) if (r.res.exit_code == MapStatus(f->reap_status)) match = true;
    if (r.res.exit_code == 0)
      Report("C05", "bad_exit_status", "ninja exited 0 although statement " + S(failed[0]->stmt) + " failed");
    else if (!match)
      Report("C05", "bad_exit_status", "ninja exited " + S(r.res.exit_code) + " which is not the status of any failed command");
  }

  if (NormalExit(r) && !IoFault(r) && !r.interrupted && !interrupted_child) {
    // every started command is waited for
    for (const SpawnRec& x : r.spawns)
      if (!x.reap_seq) Report("C05", "bad_exit_status", "ninja exited without waiting for statement " + S(x.stmt));
  }

  // failed commands leave no log record; successful ones have a complete one
  if (NormalExit(r) && !IoFault(r) && !interrupted_child && !r.interrupted) {
    std::set<int> ok_stmts;
    for (const SpawnRec& x : r.spawns) if (x.reap_seq && x.reap_status == 0) ok_stmts.insert(x.stmt);
    for (auto* f : failed) {
      if (ok_stmts.count(f->stmt)) continue;
      for (auto& o : f->outs) {
        auto b = r.log_before.last.find(o), a = r.log_after.last.find(o);
        bool same = (b == r.log_before.last.end() && a == r.log_after.last.end()) ||
                    (b != r.log_before.last.end() && a != r.log_after.last.end() && b->second.hash == a->second.hash &&
                     b->second.mtime == a->second.mtime && b->second.start == a->second.start && b->second.end == a->second.end);
        if (!same && !r.log_torn_tail_before && a != r.log_after.last.end() && a->second.hash == NinjaCommandHash(HashCmdFor(sc, sc.stmts[f->stmt])))
          Report("C05", "failure_logged", "build log gained a record for '" + o + "' although its command failed");
        auto db = r.deps_before.last.find(o), da = r.deps_after.last.find(o);
        bool dsame = (db == r.deps_before.last.end() && da == r.deps_after.last.end()) ||
                     (db != r.deps_before.last.end() && da != r.deps_after.last.end() && db->second.mtime == da->second.mtime && db->second.deps == da->second.deps);
        if (!dsame) Report("C05", "failure_logged", "deps log gained a record for '" + o + "' although its command failed");
      }
    }
    // (the first record appended behind a torn tail merges with it: C08 allows
    // that output to look out of date)
    if (r.epochs <= 1 && !r.log_torn_tail_before) {
      for (const SpawnRec& x : r.spawns) {
        if (!x.reap_seq || x.reap_status != 0) continue;
        const Stmt& s = sc.stmts[x.stmt];
        if (s.regen) continue;
        // deps extraction can turn a successful command into a failure; then no record is due
        uint64_t want = NinjaCommandHash(HashCmdFor(sc, s));
        for (auto& o : x.outs) {
          auto a = r.log_after.last.find(o);
          if (a == r.log_after.last.end() || a->second.hash != want)
            Report("C05", "failure_logged", "successful statement " + S(x.stmt) + " has no complete build-log record for '" + o + "'");
        }
      }
    }
  }
}

// ------------------------------------------------------------------ C06 termination, tokens, work conservation
void World::CheckTermination(const InvRecord& r) {
  if (r.res.end == ProcResult::kHang) {
    Report("C06", "hang", "ninja blocked forever: " + r.res.end_detail);
    Report("C13", "hang", "ninja blocked forever: " + r.res.end_detail);
    Report("C17", "hang", "ninja blocked forever: " + r.res.end_detail);
  }
  if (r.res.end == ProcResult::kBudget) {
    Report("C06", "hang", "ninja did not terminate within the syscall budget");
    Report("C13", "hang", "ninja did not terminate within the syscall budget");
  }
  if (r.res.out.find("stuck [this is a bug]") != std::string::npos || r.res.err.find("stuck [this is a bug]") != std::string::npos)
    Report("C06", "stuck_message", "ninja reported 'stuck [this is a bug]'");
  if (r.res.err.find("internal error") != std::string::npos || r.res.out.find("internal error") != std::string::npos)
    Report("C06", "stuck_message", "ninja reported an internal error");
  if (r.res.end == ProcResult::kAbort || r.res.end == ProcResult::kAssert || r.res.end == ProcResult::kTerminate)
  {
    Report("C13", "abnormal_exit", "ninja ended abnormally: " + r.res.end_detail);
    Report("C06", "abnormal_exit", "ninja ended abnormally instead of finishing or reporting an error: " + r.res.end_detail);
  }

  if (r.plan.jobserver && NormalExit(r)) {
    stats->n["jobserver_builds"]++;
    if (r.tokens_after != r.tokens_before && r.res.err.find("ninja: fatal: ") != std::string::npos)
      Report("C06", "token_leak_on_fatal", "ninja gave up with '" + r.res.err.substr(r.res.err.find("ninja: fatal: "), 60) + "' while holding " + S(r.tokens_before - r.tokens_after) + " jobserver token(s) and exited without returning them");
    else if (r.tokens_after != r.tokens_before)
      Report("C06", "token_leak", "jobserver pool held " + S(r.tokens_before) + " tokens before ninja and " + S(r.tokens_after) + " after it exited with status " + S(r.res.exit_code));
  }

  // work conservation, by hindsight: a ppoll that let time pass although a
  // command started later was startable at that instant
  if (r.plan.l > 0 || r.plan.dry || !r.plan.tool.empty() || r.plan.jobserver) return;
  // an alias that sits in a pool waits for a slot of that pool like a command; what is behind it
  // is not startable before, whatever its own pool says (not modelled: skipped)
  for (const Stmt& s : sc.stmts) if (s.alive && s.phony && !s.pool.empty()) { stats->n["idle_check_skipped_pooled_alias"]++; return; }
  // a dyndep file produced during the build changes what is wanted mid-build
  for (const SpawnRec& x : r.spawns) for (auto& o : x.outs) if (sc.FindDyndep(o)) return;
  // ... and so does one that is merely loaded mid-build (its producer had nothing to do but was
  // waiting for an order-only input): statements it adds enter the plan only then
  if (!r.spawns.empty()) {
    int64_t first_spawn = r.spawns[0].sysno;
    for (const SpawnRec& x : r.spawns) first_spawn = std::min(first_spawn, x.sysno);
    for (const Ev& e : r.res.trace)
      if (e.kind == Ev::kOpenRead && e.sysno > first_spawn)
        for (auto& dd : sc.dyndeps) if (e.s == "/w/" + dd.path) { stats->n["idle_check_skipped_dyndep_loaded_mid_build"]++; return; }
  }
  int eff_j = r.plan.j > 0 ? r.plan.j : (r.plan.j == 0 ? 1 << 30 : r.plan.nproc + 2);
  std::vector<const SpawnRec*> failed;
  for (const SpawnRec& x : r.spawns) if (x.reap_seq && x.reap_status != 0) failed.push_back(&x);
  for (const Ev& e : r.res.trace) {
    if (e.kind != Ev::kBlock || e.s != "ppoll") continue;
    // the wait covers (start_seq, e.seq); state is taken at its start: the last event before the ppoll began.
    // kBlock is traced after the wait; use the sysno to find commands started before this syscall.
    int running = 0;
    std::map<std::string, int> pool_use;
    int nfailed = 0;
    int ep = -1;
    bool manifest_phase = false;
    for (const SpawnRec& x : r.spawns) {
      if (x.sysno < e.sysno) {
        ep = std::max(ep, x.epoch);
        bool reaped_before = false;
        for (const Ev& q : r.res.trace) if (q.kind == Ev::kReap && q.a == x.pid && q.sysno < e.sysno) reaped_before = true;
        if (!reaped_before) { running++; pool_use[x.pool]++; }
        else if (x.reap_status != 0) nfailed++;
        // while the manifest's generator runs nothing else is in the plan: bringing build.ninja up
        // to date is a build of its own (and not a new epoch when a restat generator leaves it alone)
        if (!reaped_before && sc.stmts[x.stmt].regen) manifest_phase = true;
      }
    }
    if (manifest_phase) continue;
    if (r.plan.k > 0 && nfailed >= r.plan.k) continue;
    if (running >= eff_j) continue;
    for (const SpawnRec& x : r.spawns) {
      if (x.sysno < e.sysno || x.epoch != ep) continue;
      if (!sc.stmts[x.stmt].dyndep.empty()) continue;   // may have been waiting for graph information
      bool ready = true;
      for (int q : x.closure) {
        for (const SpawnRec& y : r.spawns) {
          if (y.stmt != q || y.epoch != x.epoch) continue;
          bool reaped_before = false;
          for (const Ev& qe : r.res.trace) if (qe.kind == Ev::kReap && qe.a == y.pid && qe.sysno < e.sysno) reaped_before = true;
          if (!reaped_before || y.reap_status != 0) ready = false;
        }
      }
      if (!ready) continue;
      if (!x.pool.empty()) {
        int depth = x.pool == "console" ? 1 : sc.pools.count(x.pool) ? sc.pools.at(x.pool) : 0;
        if (depth > 0 && pool_use[x.pool] >= depth) continue;
      }
      // a statement only wanted because something upstream finished dirty is
      // not startable before that: require that it had no unfinished upstream at all
      Report("C06", "idle_with_work", "ninja waited although statement " + S(x.stmt) + " was startable (" + S(running) + " running, -j" + S(eff_j) + ")");
    }
  }
}

void World::CheckLimits(const InvRecord& r) { (void)r; }

// ------------------------------------------------------------------ C07: the interrupted process itself
void World::CheckInterrupt(const InvRecord& r) {
  if (!r.interrupted || r.plan.dry || !r.plan.tool.empty()) return;
  if (r.res.end != ProcResult::kExit && !(r.res.end == ProcResult::kCrashed && r.res.fired.count("killed_by_default_action"))) return;
  if (IoFault(r) || r.res.fired.count("crash") || r.res.fired.count("torn_write")) return;
  // did ninja see the signal while commands were running?
  bool acted = r.res.out.find("interrupted by user") != std::string::npos || r.res.err.find("interrupted by user") != std::string::npos;
  bool regen_running = false;
  for (const SpawnRec& x : r.spawns) if (sc.stmts[x.stmt].regen && (x.killed || !x.reap_seq || MapStatus(x.reap_status) == 130)) regen_running = true;
  bool any_running = false;
  for (const SpawnRec& x : r.spawns) if (!x.reap_seq || x.killed) any_running = true;
  if (!acted) {
    // the signal arrived when nothing was in flight any more (or before the
    // build loop): finishing normally or dying from the default action are both fine.
    // What is not fine is a signal that got lost: ninja blocks its signals outside ppoll, so
    // the first ppoll after the signal became pending must notice it - no command may be
    // started after that wait.
    uint64_t t_sig = 0, t_poll = 0;
    for (const Ev& e : r.res.trace) {
      if (!t_sig && e.kind == Ev::kSignal && e.s == "pending") t_sig = e.seq;
      else if (t_sig && !t_poll && e.kind == Ev::kBlock && e.s == "ppoll" && e.seq > t_sig) t_poll = e.seq;
    }
    if (t_poll)
      for (const SpawnRec& x : r.spawns)
        if (x.seq > t_poll) {
          Report("C07", "interrupt_cleanup", "ninja was sent signal " + S(r.interrupt_sig) + " while commands were running, and went on to start statement " + S(x.stmt) + " after the next wait: the interrupt was lost");
          break;
        }
    return;
  }
  stats->nontrivial["C07"] = true;
  stats->n["interrupt_handled"]++;
  if (r.res.exit_code != 130) {
    if (regen_running && r.res.exit_code == 1)
      Report("C07", "regen_interrupt_status", "ninja interrupted while regenerating the manifest exited with status 1 instead of 130");
    else {
      // K33: the terminal's signal also killed the console command; ninja concluded "interrupted"
      // from that command's wait status (ExitInterrupted in Builder::Build) while its own copy of
      // the signal was still blocked and pending - its handler never ran - and died from it at exit
      bool via_console = false;
      if (r.res.exit_code == 128 + r.interrupt_sig && r.res.fired.count("killed_by_default_action")) {
        uint64_t handled = 0, tty_reaped = 0;
        std::set<int> tty_pids;
        for (const Ev& e : r.res.trace) {
          if (e.kind == Ev::kKill && e.s == "tty") tty_pids.insert(e.a);
          else if (e.kind == Ev::kReap && tty_pids.count(e.a) && !tty_reaped) tty_reaped = e.seq;
          else if (e.kind == Ev::kSignal && e.a == r.interrupt_sig && e.s == "delivered" && !handled) handled = e.seq;
        }
        via_console = tty_reaped && (!handled || handled > tty_reaped);
      }
      if (via_console)
        Report("C07", "interrupt_status_console_hangup", "a hang-up of the terminal killed the console command; ninja stopped because of that command's status and then died from its own pending signal: status " + S(r.res.exit_code) + " instead of 130");
      else
        Report("C07", "interrupt_cleanup", "interrupted ninja exited with status " + S(r.res.exit_code) + " instead of 130");
    }
  }
  if (r.lock_at_exit)
    Report("C07", "interrupt_cleanup", "interrupted ninja left its lock file behind");
  for (const SpawnRec& x : r.spawns) {
    if (x.reap_seq && !x.killed && x.reap_status == 0) continue;   // finished normally before the interrupt
    bool was_running = x.killed || !x.reap_seq || MapStatus(x.reap_status) == 130;
    if (!was_running) continue;
    // stopped: every running non-console command gets the signal
    if (!x.console && !x.killed && r.alive_at_exit.count(x.pid))
      Report("C07", "interrupt_cleanup", "statement " + S(x.stmt) + " was still running when the interrupted ninja exited and was never signalled");
    // ninja waits for every command it has signalled (a command that handles or
    // ignores the signal may still write while shutting down), so nothing is
    // running any more when it looks at the outputs, let alone when it exits
    if (r.alive_at_exit.count(x.pid) && r.res.end == ProcResult::kExit)
      Report("C07", "interrupt_cleanup", "the interrupted ninja exited while the command of statement " + S(x.stmt) + " was still running: it did not wait for the commands it stopped");
    bool any_modified_left = false;
    for (auto& o : x.outs) {
      auto now = r.outs_at_exit.find(o);
      auto pre = x.pre_outs.find(o);
      if (now == r.outs_at_exit.end()) continue;   // absent: fine
      if (x.deps_kind_depfile) {
        Report("C07", "interrupt_cleanup", "statement " + S(x.stmt) + " has a depfile but its output '" + o + "' survived the interrupt");
        continue;
      }
      bool same = pre != x.pre_outs.end() && pre->second.first == now->second.first && pre->second.second == now->second.second;
      if (!same) any_modified_left = true;
    }
    if (any_modified_left)
      Report("C07", "interrupt_cleanup", "an output of interrupted statement " + S(x.stmt) + " was modified by the command and not removed");
    if (x.deps_kind_depfile && r.outs_at_exit.count(x.depfile) && !r.plan.keepdepfile)
      Report("C07", "interrupt_cleanup", "depfile " + x.depfile + " of interrupted statement " + S(x.stmt) + " was not removed");
    // no log record for it
    for (auto& o : x.outs) {
      auto b = r.log_before.last.find(o), a = r.log_after.last.find(o);
      bool same = (b == r.log_before.last.end() && a == r.log_after.last.end()) ||
                  (b != r.log_before.last.end() && a != r.log_after.last.end() && b->second.hash == a->second.hash && b->second.mtime == a->second.mtime && b->second.end == a->second.end);
      // (a record merged with a crash-torn tail is garbage, not a claim of success: C08)
      // (nor is one whose torn last hex digit happens to be completed by the first
      // digit of the line appended behind it; with a torn tail nothing is concluded)
      if (!same && !r.log_torn_tail_before && a != r.log_after.last.end() && a->second.hash == NinjaCommandHash(HashCmdFor(sc, sc.stmts[x.stmt])))
        Report("C07", "interrupt_cleanup", "the build log gained a record for '" + o + "' of an interrupted command");
    }
  }
  (void)any_running;
}

// ------------------------------------------------------------------ C16 rspfile lifecycle
void World::CheckRsp(const InvRecord& r) {
  if (!NormalExit(r) || r.interrupted || r.plan.dry || IoFault(r)) return;
  for (const SpawnRec& x : r.spawns) {
    if (x.epoch != r.epochs && r.epochs > 1) continue;
    const Stmt& s = sc.stmts[x.stmt];
    if (!s.rsp || !x.reap_seq) continue;
    bool exists = k.Exists(s.rsp_path);
    stats->n["rsp_lifecycle_checked"]++;
    if (MapStatus(x.reap_status) == 130) continue;
    if (x.reap_status == 0 && !r.plan.keeprsp && exists) {
      // deps extraction failures also keep it; only flag when the statement was recorded as done
      if (r.log_after.last.count(s.outs[0]))
        Report("C16", "rspfile_lifecycle", "response file " + s.rsp_path + " still exists after its command succeeded");
    }
    if ((x.reap_status != 0 || r.plan.keeprsp) && !exists)
      Report("C16", "rspfile_lifecycle", "response file " + s.rsp_path + " was removed although " + (r.plan.keeprsp ? "-d keeprsp was given" : "its command failed"));
  }
}

// ------------------------------------------------------------------ C20
static std::string StripAnsi(const std::string& in) {
  std::string s;
  for (size_t i = 0; i < in.size(); ++i) {
    if (in[i] != '\33') { s.push_back(in[i]); continue; }
    if (i + 1 >= in.size()) break;
    if (in[i + 1] != '[') continue;
    i += 2;
    // a control sequence ends with its final byte, 0x40-0x7E (ECMA-48) - a letter, but also ~ @ ` { | }
    while (i < in.size() && !(in[i] >= 0x40 && in[i] <= 0x7e)) ++i;
  }
  return s;
}

static bool EndsWith(const std::string& s, size_t end, const std::string& suffix) {
  return end >= suffix.size() && s.compare(end - suffix.size(), suffix.size(), suffix) == 0;
}

void World::CheckOutput(const InvRecord& r) {
  if (r.plan.dry || !r.plan.tool.empty()) return;
  if (r.res.end != ProcResult::kExit) return;           // a killed ninja prints what it got to
  // injected I/O errors never hit ninja's own stdout; after one ninja stops the build in an
  // orderly way (what it holds back must still be shown) unless it calls Fatal(), which
  // exits on the spot (K17)
  if (IoFault(r) && (r.res.err.find("ninja: fatal: ") != std::string::npos || r.res.out.find("ninja: fatal: ") != std::string::npos)) return;
  const std::string& T = r.res.out;
  bool smart = r.plan.tty && !r.plan.verbose && !r.plan.quiet;
  bool color = r.plan.Color();   // colour support is decided from the terminal and the colour variables, whatever the verbosity
  bool interrupted = r.interrupted && (T.find("interrupted by user") != std::string::npos || r.res.err.find("interrupted by user") != std::string::npos);
  bool died_by_signal = r.res.fired.count("killed_by_default_action") > 0;
  if (died_by_signal) return;
  long checked = 0;
  bool concurrent_output = false;
  for (const SpawnRec& x : r.spawns) {
    const Stmt& s = sc.stmts[x.stmt];
    if (x.console || s.deps_kind == 3) continue;
    if (!x.reap_seq || x.killed) continue;                // interrupted commands are not reported
    if (interrupted && MapStatus(x.reap_status) == 130) continue;
    if (x.output.empty()) continue;
    std::string want = color || x.output.find('\33') == std::string::npos ? x.output : StripAnsi(x.output);
    // a command that was reaped but whose completion ninja never processed (it
    // stopped for an interrupt first) is not reported either
    size_t pos = T.find(want);
    if (interrupted && pos != std::string::npos) stats->n["interrupted_outputs_shown"]++;
    if (pos == std::string::npos) {
      if (interrupted) {
        // ... unless ninja demonstrably did process it: a new build-log record is written only
        // after the output was handed to the printer (held back while a console command owns
        // the terminal), and what the printer holds must be shown before ninja exits
        if (x.reap_status == 0 && !x.outs.empty() && !r.log_torn_tail_before && r.log_after.valid_header) {
          auto a = r.log_after.last.find(x.outs[0]);
          auto b = r.log_before.last.find(x.outs[0]);
          bool fresh = a != r.log_after.last.end() &&
                       (b == r.log_before.last.end() || b->second.start != a->second.start || b->second.end != a->second.end || b->second.mtime != a->second.mtime || b->second.hash != a->second.hash);
          std::string tag = want.substr(0, want.find(">>") + 2);
          if (fresh) stats->n["interrupted_processed_output_missing_whole"]++;
          if (fresh && T.find(tag) == std::string::npos) {
            Report("C20", "output_lost_or_dup", "statement " + S(x.stmt) + " finished and was recorded in the build log before the interrupt, but its output (" + tag + ") was never shown");
          }
        }
        continue;
      }
      // every tag must still be there exactly once: distinguish lost from interleaved
      std::string tag = want.substr(0, want.find(">>") + 2);
      if (T.find(tag) == std::string::npos)
        Report("C20", "output_lost_or_dup", "the output of statement " + S(x.stmt) + " (" + tag + ") does not appear on ninja's stdout");
      else
        Report("C20", "output_interleaved", "the output of statement " + S(x.stmt) + " (" + tag + ") is not shown as one contiguous block");
      continue;
    }
    if (T.find(want, pos + 1) != std::string::npos)
      Report("C20", "output_lost_or_dup", "the output of statement " + S(x.stmt) + " is shown more than once");
    checked++;
    for (const SpawnRec& y : r.spawns) if (&y != &x && y.seq < x.reap_seq && (y.reap_seq == 0 || y.reap_seq > x.seq) && !y.output.empty()) concurrent_output = true;
    if (smart) {
      // On a smart terminal the status line is redrawn in place (\r ... ESC[K) and a command's output is
      // printed below it: directly before the block of a command that succeeded stands the end of a status
      // line, ESC[K and the newline. (Not applied when a console command ran - what was held back is flushed
      // in plain form - nor to failed commands, whose header comes first, nor to interrupted builds.)
      bool any_console = false;
      for (const SpawnRec& y : r.spawns) if (y.console) any_console = true;
      if (!any_console && !interrupted && x.reap_status == 0 && !IoFault(r)) {
        size_t b4 = pos;
        if (b4 > 1 && T[b4 - 1] == '\n' && T[b4 - 2] == '\n') b4--;   // tolerated: a newline owed to the previous block
        if (!EndsWith(T, b4, "\x1b[K\n"))
          Report("C20", "output_interleaved", "on a smart terminal the output of statement " + S(x.stmt) + " does not directly follow a status line (ESC[K, newline)");
        else stats->n["smart_terminal_blocks_checked"]++;
      }
      continue;
    }
    // directly after its own status line / failure header
    size_t before = pos;
    if (before > 0 && T[before - 1] == '\n' && before > 1 && T[before - 2] == '\n') before--;   // tolerated: a newline owed to the previous block
    std::string desc = (s.description && !r.plan.verbose) ? "D" + S(s.id) + " " + [&]() { std::string o; for (auto& p : s.outs) { if (!o.empty()) o += ' '; o += ShellEscape(p); } return o; }() : x.cmd;
    if (x.reap_status != 0) {
      std::string outs;
      for (auto& p : x.outs) outs += p + " ";
      std::string failed = "FAILED: [code=" + S(MapStatus(x.reap_status)) + "] ";
      if (color) failed = "\x1B[31m" + failed + "\x1B[0m";
      std::string hdr = failed + outs + "\n" + x.cmd + "\n";
      if (!EndsWith(T, before, hdr))
        Report("C20", "output_interleaved", "the output of failed statement " + S(x.stmt) + " is not directly preceded by its FAILED header and command line");
      else stats->n["failed_blocks_checked"]++;
    } else if (!r.plan.quiet) {
      bool ok = EndsWith(T, before, desc + "\n");
      // (a --status format without $description prints the counters alone)
      if (!ok && r.plan.status_mode == 2 && !r.plan.status_fmt.empty() && r.plan.status_fmt.find("$description") == std::string::npos) ok = EndsWith(T, before, "]\n");
      if (!ok && IoFault(r)) {
        // a command that succeeded can still fail as an edge (its depfile cannot be read or
        // removed): ninja then shows its output under a FAILED header with status 1
        std::string outs;
        for (auto& p : x.outs) outs += p + " ";
        std::string failed = "FAILED: [code=1] ";
        if (color) failed = "\x1B[31m" + failed + "\x1B[0m";
        ok = EndsWith(T, before, failed + outs + "\n" + x.cmd + "\n");
      }
      if (!ok)
        Report("C20", "output_interleaved", "the output of statement " + S(x.stmt) + " does not directly follow its own status line");
    }
  }
  stats->n["output_blocks_checked"] += checked;
  if (checked && concurrent_output) stats->nontrivial["C20"] = true;

  // ---- counters
  if (IoFault(r)) return;   // a build stopped by an I/O error ends with commands started and not finished
  if (r.plan.quiet) return;
  if (smart && r.plan.cols < 80) return;   // a narrow terminal elides the middle of the line, counters included
  int last_s = -1, last_f = -1, last_t = -1;
  size_t i = 0;
  long lines = 0;
  while ((i = T.find('[', i)) != std::string::npos) {
    int a = 0, b = 0, c = 0, d = 0, nn = 0;
    if (r.plan.status_mode == 0) {
      if (sscanf(T.c_str() + i, "[%d/%d] %n", &a, &b, &nn) >= 2 && nn > 0) {
        bool at_line_start = i == 0 || T[i - 1] == '\n' || T[i - 1] == '\r' || T[i - 1] == 'K' || T[i - 1] == '>' || true;
        if (at_line_start) {
          if (a > b) Report("C20", "counter_inconsistent", "a status line shows " + S(a) + " finished of " + S(b) + " total");
          last_f = a; last_t = b; lines++;
        }
      }
    } else if (sscanf(T.c_str() + i, "[%d/%d/%d/%d] %n", &a, &b, &c, &d, &nn) >= 4 && nn > 0) {
      if (b > c) Report("C20", "counter_inconsistent", "a status line shows " + S(b) + " finished of " + S(c) + " total");
      if (b > a) Report("C20", "counter_inconsistent", "a status line shows " + S(b) + " finished but only " + S(a) + " started");
      if (a > c) Report("C20", "counter_inconsistent", "a status line shows " + S(a) + " started of " + S(c) + " total");
      last_s = a; last_f = b; last_t = c; lines++;
    }
    i++;
  }
  stats->n["status_lines_parsed"] += lines;
  bool any_console = false;
  for (const SpawnRec& x : r.spawns) if (x.console) any_console = true;
  if (any_console) stats->nontrivial["C20"] = true;
  // a console command's status line is printed when it starts, not when it
  // finishes; the last printed line then predates the last completion
  const SpawnRec* last_done = nullptr;
  for (const SpawnRec& x : r.spawns) if (x.reap_seq && (!last_done || x.reap_seq > last_done->reap_seq)) last_done = &x;
  bool last_is_console = last_done && last_done->console;
  if (last_is_console) return;
  // likewise the line of a restat command is printed before the pruning it
  // causes lowers the total
  if (last_done) {
    const Stmt& ls = sc.stmts[last_done->stmt];
    const DyndepEntry* le = sc.DyndepFor(ls.id);
    if (ls.restat || (le && le->restat)) return;
  }
  // ... and so is the line of a command whose completion makes a dyndep file loadable: the
  // re-scan that follows can find statements clean that were counted while the file was pending
  if (last_done) {
    for (const Ev& e : r.res.trace)
      if (e.kind == Ev::kOpenRead && e.seq > last_done->reap_seq)
        for (auto& dd : sc.dyndeps) if (e.s == "/w/" + dd.path) return;
  }
  if (lines && r.ok() && !interrupted && r.epochs >= 1) {
    if (last_f != last_t)
      Report("C20", "counter_inconsistent", "a successful build ended with " + S(last_f) + " finished of " + S(last_t) + " total");
    if (last_s >= 0 && last_s != last_f)
      Report("C20", "counter_inconsistent", "a successful build ended with " + S(last_s) + " started but " + S(last_f) + " finished");
  }
  if (lines && NormalExit(r) && !interrupted && last_s >= 0 && last_s != last_f && !r.ok()) {
    // every started command is also reported finished, also when the build fails
    bool all_reaped = true;
    for (const SpawnRec& x : r.spawns) if (!x.reap_seq) all_reaped = false;
    if (all_reaped && r.epochs <= 1)
      Report("C20", "counter_inconsistent", "the last status line of a failed build shows " + S(last_s) + " started but " + S(last_f) + " finished");
  }
  // ---- console: nothing is printed while a console command owns the terminal
  for (const SpawnRec& x : r.spawns) {
    if (!x.console || !x.reap_seq) continue;
    for (const Ev& e : r.res.trace)
      if (e.kind == Ev::kStdout && e.seq > x.seq && e.seq < x.reap_seq && x.exit_seq && e.seq < x.exit_seq) {
        Report("C20", "output_interleaved", "ninja printed to the terminal while console statement " + S(x.stmt) + " owned it: " + e.s.substr(0, 60));
        break;
      }
    stats->n["console_periods_checked"]++;
  }
}

// ------------------------------------------------------------------ C17
void World::CheckCycles(const InvRecord& r, const std::set<std::string>& dd_at_start) {
  if (!r.plan.tool.empty()) return;
  if (r.res.end != ProcResult::kExit) return;
  // inputs of a statement: 0 = what is certain from the start (manifest + dyndep
  // source files that exist), 1 = everything that may become known
  auto inputs = [&](int id, int level) {
    const Stmt& s = sc.stmts[id];
    std::vector<std::string> v;
    v.insert(v.end(), s.ins.begin(), s.ins.end());
    v.insert(v.end(), s.imp_ins.begin(), s.imp_ins.end());
    v.insert(v.end(), s.oo_ins.begin(), s.oo_ins.end());
    if (const DyndepEntry* e = sc.DyndepFor(id)) {
      const DyndepFile* d = sc.FindDyndep(s.dyndep);
      // certainly loaded: a dyndep file that existed from the start and whose
      // producer (if any) had nothing to do, or one whose producer ran to
      // success in this invocation (it is loaded the moment the producer finishes)
      bool producer_ran_ok = false, producer_ran = false;
      if (d && d->producer >= 0)
        for (const SpawnRec& x : r.spawns) if (x.stmt == d->producer) { producer_ran = true; if (x.reap_seq && x.reap_status == 0) producer_ran_ok = true; }
      bool certain = d && ((dd_at_start.count(s.dyndep) && !producer_ran && r.res.exit_code == 0) ||
                           (dd_at_start.count(s.dyndep) && d->producer < 0) || producer_ran_ok);
      if (level == 1 || level == 3 || certain) v.insert(v.end(), e->imp_ins.begin(), e->imp_ins.end());
    }
    if (level == 2 && s.deps_kind >= 2 && !s.outs.empty()) {
      // what the deps log holds for the statement when ninja starts
      auto rec = r.deps_before.last.find(s.outs[0]);
      if (rec != r.deps_before.last.end()) v.insert(v.end(), rec->second.deps.begin(), rec->second.deps.end());
    }
    if (level == 1 || level == 3) {
      // what a command reports is the files it read: an alias among its hidden
      // includes shows up as the files behind it
      std::function<void(const std::string&, int)> add = [&](const std::string& p, int depth) {
        v.push_back(p);
        int pr = sc.Producer(p);
        if (pr >= 0 && sc.stmts[pr].phony && depth < 20) { for (auto& q : sc.stmts[pr].ins) add(q, depth + 1); for (auto& q : sc.stmts[pr].imp_ins) add(q, depth + 1); }
      };
      for (auto& p : s.hidden) add(p, 0);
      auto rh = reported_hidden.find(id);
      if (rh != reported_hidden.end()) for (auto& p : rh->second) add(p, 0);
    }
    return v;
  };
  // who produces a path: the manifest says, or - only for statements ninja has in its graph
  // anyway (|known|), whose dyndep file it therefore loads - their dyndep file
  auto manifest_producer = [&](const std::string& p) {
    for (const Stmt& s : sc.stmts) {
      if (!s.alive) continue;
      for (auto& o : s.outs) if (o == p) return s.id;
      for (auto& o : s.imp_outs) if (o == p) return s.id;
    }
    return -1;
  };
  auto dd_certain = [&](int id) {
    const Stmt& s = sc.stmts[id];
    const DyndepFile* dq = s.dyndep.empty() ? nullptr : sc.FindDyndep(s.dyndep);
    if (!dq || !sc.DyndepFor(id)) return false;
    bool producer_ran_ok = false, producer_ran = false;
    if (dq->producer >= 0)
      for (const SpawnRec& x : r.spawns) if (x.stmt == dq->producer) { producer_ran = true; if (x.reap_seq && x.reap_status == 0) producer_ran_ok = true; }
    return (dd_at_start.count(s.dyndep) && !producer_ran && r.res.exit_code == 0) || (dd_at_start.count(s.dyndep) && dq->producer < 0) || producer_ran_ok;
  };
  // is a cycle reachable from the requested targets (validations are extra roots)?
  auto cyclic = [&](int level) {
    std::vector<std::string> roots = EffectiveTargets(r.plan);
    // statements reachable through what the manifest (and loaded dyndep inputs) say
    std::set<int> known;
    {
      std::vector<std::string> todo = roots;
      while (!todo.empty()) {
        std::string t = todo.back(); todo.pop_back();
        int pr0 = manifest_producer(t);
        if (pr0 < 0 || !known.insert(pr0).second) continue;
        for (auto& p : inputs(pr0, level)) todo.push_back(p);
        for (auto& v : sc.stmts[pr0].validations) todo.push_back(v);
      }
    }
    auto producer = [&](const std::string& p) {
      int m = manifest_producer(p);
      if (m >= 0) return m;
      int q = sc.Producer(p);   // an output only a dyndep file declares
      // what ninja MAY come to know (level 1): a dyndep file produced mid-build is loaded for every
      // statement bound to it, needed or not; what it MUST know: only for statements in its graph
      if (level == 1 && q >= 0) return q;
      if (level != 3 && q >= 0 && known.count(q) && dd_certain(q)) return q;
      return -1;
    };
    std::map<int, int> color;   // 1 on stack, 2 done
    bool found = false;
    std::vector<std::string> pending = roots;
    std::function<void(int)> dfs = [&](int id) {
      if (found) return;
      color[id] = 1;
      for (auto& p : inputs(id, level)) {
        int pr = producer(p);
        if (pr < 0) continue;
        if (color[pr] == 1) { found = true; return; }
        if (color[pr] == 0) dfs(pr);
        if (found) return;
      }
      for (auto& v : sc.stmts[id].validations) pending.push_back(v);
      color[id] = 2;
    };
    while (!pending.empty() && !found) {
      std::string t = pending.back(); pending.pop_back();
      int pr = producer(t);
      if (pr >= 0 && color[pr] == 0) dfs(pr);
    }
    return found;
  };
  std::string all = r.res.err + "\n" + r.res.out;
  size_t at = all.find("dependency cycle: ");
  bool reported = at != std::string::npos;
  bool must = cyclic(0), may = cyclic(1);
  // A cycle closed by dependencies the deps log already holds is certain too when ninja itself
  // found nothing to do: every statement it needs was judged clean, so every record was loaded
  // at the scan (a stale record makes its statement dirty) and the cycle was in the graph.
  bool must_recorded = false;
  if (!must && may && r.ok() && r.spawns.empty() && !r.plan.dry && r.deps_before.valid_header && r.deps_before.clean_eof)
    must_recorded = cyclic(2);
  if (must_recorded) { must = true; stats->n["cycle_through_recorded_deps_certain"]++; }
  if (may) stats->nontrivial["C17"] = true;
  if (!sc.stmts.empty()) for (const Stmt& s : sc.stmts) if (!s.validations.empty()) for (auto& v : s.validations) { int pv = sc.Producer(v); if (pv >= 0 && StmtClosure(pv).count(s.id)) stats->nontrivial["C17"] = true; }
  if (reported) {
    stats->n["cycle_reported"]++;
    size_t nl = all.find('\n', at);
    std::string path = all.substr(at + 18, nl == std::string::npos ? std::string::npos : nl - at - 18);
    size_t w = path.find(" [-w phonycycle");
    if (w != std::string::npos) path.erase(w);
    if (!path.empty() && path.back() == '.') path.pop_back();
    std::vector<std::string> hops;
    size_t i = 0;
    for (;;) {
      size_t j = path.find(" -> ", i);
      hops.push_back(path.substr(i, j == std::string::npos ? std::string::npos : j - i));
      if (j == std::string::npos) break;
      i = j + 4;
    }
    if (!may) Report("C17", "false_cycle", "ninja reported 'dependency cycle: " + path + "' but the graph needed for the targets is acyclic");
    if (hops.size() < 2 || hops.front() != hops.back())
      Report("C17", "bad_cycle_path", "the reported cycle '" + path + "' does not end where it starts");
    for (size_t h = 0; h + 1 < hops.size(); h++) {
      int pr = sc.Producer(hops[h]);
      bool ok = false;
      if (pr >= 0) for (auto& p : inputs(pr, 1)) if (p == hops[h + 1]) ok = true;
      if (!ok) Report("C17", "bad_cycle_path", "the reported cycle '" + path + "' contains the hop '" + hops[h] + " -> " + hops[h + 1] + "' which is not a dependency in the graph");
    }
    // (a command started before the dyndep file that closes the cycle was loaded could not be held back)
    uint64_t last_dd_load = 0;
    for (const Ev& e : r.res.trace)
      if (e.kind == Ev::kOpenRead) for (auto& dd : sc.dyndeps) if (e.s == "/w/" + dd.path) last_dd_load = std::max(last_dd_load, e.seq);
    for (const SpawnRec& x : r.spawns)
      for (auto& hp : hops) if (sc.Producer(hp) == x.stmt && x.epoch == r.epochs && x.seq > last_dd_load)
        Report("C17", "cycle_missed", "statement " + S(x.stmt) + " on the reported cycle was started");
    if (r.res.exit_code == 0) Report("C17", "cycle_missed", "ninja reported a dependency cycle but exited with status 0");
  } else if (must) {
    // other legitimate early errors (e.g. a missing source) come first
    bool other_error = r.res.exit_code != 0 && (r.res.err.find("ninja: error:") != std::string::npos || r.res.out.find("build stopped") != std::string::npos);
    // ... but "stuck [this is a bug]" is ninja admitting that it walked into the cycle undiagnosed
    if (all.find("stuck [this is a bug]") != std::string::npos) {
      // K30: is every possible cycle one that goes through an output only a dyndep file declares?
      bool only_through_dd_output = !cyclic(3);
      if (only_through_dd_output)
        Report("C17", "cycle_through_dyndep_output_stuck", "the cycle is closed by an implicit output that a dyndep file declares; ninja did not diagnose it and ended with 'stuck [this is a bug]'");
      else
        Report("C17", "cycle_missed", "the graph needed for the targets contains a dependency cycle; ninja did not diagnose it and ended with 'stuck [this is a bug]'" + std::string(r.spawns.empty() ? "" : " after starting commands"));
    }
    else if (!other_error && !cyclic(3))
      // K30 again: the consumer of the file was scanned (or even started) before the dyndep file
      // said who produces it; the re-scan after the load does not revisit it
      Report("C17", "cycle_through_dyndep_output_missed", "the cycle is closed by an implicit output that a dyndep file declares; ninja " + std::string(r.res.exit_code == 0 ? "exited with status 0" : "did not report it") + (r.spawns.empty() ? "" : " and started commands"));
    else if (!other_error)
      Report("C17", "cycle_missed", "the graph needed for the targets contains a dependency cycle, but ninja " + std::string(r.res.exit_code == 0 ? "exited with status 0" : "did not report it") + (r.spawns.empty() ? "" : " and started commands"));
  }
}

// ------------------------------------------------------------------ C03
// Non-order-only inputs of a statement as make semantics sees them: declared
// explicit and implicit inputs, what its dyndep file adds, what it reported
// through depfile / deps log; a phony alias stands for its own such inputs.
std::vector<std::string> World::EffectiveInputs(int stmt) const {
  std::vector<std::string> out;
  std::set<std::string> seen;
  std::function<void(const std::string&, int)> add = [&](const std::string& p, int depth) {
    int pr = sc.Producer(p);
    if (pr >= 0 && sc.stmts[pr].phony && depth < 20) {
      const Stmt& ph = sc.stmts[pr];
      for (auto& q : ph.ins) add(q, depth + 1);
      for (auto& q : ph.imp_ins) add(q, depth + 1);
      // the alias file itself counts when it exists
      if (seen.insert(p).second) out.push_back(p);
      return;
    }
    if (seen.insert(p).second) out.push_back(p);
  };
  const Stmt& s = sc.stmts[stmt];
  for (auto& p : s.ins) add(p, 0);
  for (auto& p : s.imp_ins) add(p, 0);
  for (auto& p : s.extra_imp) add(p, 0);
  if (const DyndepEntry* e = sc.DyndepFor(stmt)) for (auto& p : e->imp_ins) add(p, 0);
  auto rh = reported_hidden.find(stmt);
  if (rh != reported_hidden.end()) for (auto& p : rh->second) add(p, 0);
  return out;
}

static std::string FullCmd(const Scenario& sc, const Stmt& s) { return HashCmdFor(sc, s); }

void World::ComputeExpectedRun(const InvPlan& p) {
  expected_run.clear();
  expected_valid = false;
  if (p.dry || !p.tool.empty()) return;
  for (const Stmt& s : sc.stmts) if (s.alive && s.regen) return;           // two build cycles: not modelled
  std::set<int> closure = Closure(EffectiveTargets(p), true);
  // the logs as they are now (a deleted or lost record makes its statement out of date)
  std::string lb, ld;
  bool hb = k.ReadFile(sc.LogDir() + ".ninja_log", &lb), hd = k.ReadFile(sc.LogDir() + ".ninja_deps", &ld);
  BuildLogFold lf = FoldBuildLog(lb, hb);
  DepsLogFold df = FoldDepsLog(ld, hd);
  // 1. statements affected directly
  std::set<int> affected;
  const Scenario& scr = sc;
  Kernel& kr = k;
  for (int id : closure) {
    const Stmt& s = sc.stmts[id];
    if (s.phony) continue;
    auto st = clean_state.find(id);
    bool aff = false;
    if (st == clean_state.end()) aff = true;
    else {
      if (!s.generator && st->second.cmd_hash != NinjaCommandHash(FullCmd(sc, s))) aff = true;
      for (auto& o : sc.DeclaredOuts(id)) {
        auto om = st->second.out_mtime.find(o);
        if (!k.Exists(o) || om == st->second.out_mtime.end() || om->second != k.Mtime(o)) aff = true;
      }
      if (s.deps_kind == 1 && !k.Exists(s.depfile)) aff = true;
      if (!s.generator) for (auto& o : sc.DeclaredOuts(id)) { auto a = lf.last.find(o); if (a == lf.last.end() || a->second.hash != st->second.cmd_hash) aff = true; }
      if (s.generator) {
        // a generator needs no log record, but without one only the files' own
        // times speak: an output older than an input (a restat run left it alone) is out of date
        for (auto& o : sc.DeclaredOuts(id)) {
          if (lf.last.count(o)) continue;
          for (auto& in : EffectiveInputs(id)) if (k.Mtime(in) > k.Mtime(o)) aff = true;
        }
      }
      if (s.deps_kind >= 2 && !df.last.count(s.outs[0])) aff = true;
      for (auto& in : EffectiveInputs(id)) {
        int pr = sc.Producer(in);
        if (pr >= 0 && sc.stmts[pr].phony) {
          // an alias without inputs whose file is missing is always out of date (documented)
          const Stmt& ph = sc.stmts[pr];
          if (ph.ins.empty() && ph.imp_ins.empty() && ph.oo_ins.empty() && ph.validations.empty() && !k.Exists(in)) aff = true;
          if (!k.Exists(in)) continue;
        }
        auto im = st->second.in_mtime.find(in);
        int64_t now_m = k.Mtime(in);
        if (im == st->second.in_mtime.end() || im->second != now_m) aff = true;
      }
    }
    if (aff) affected.insert(id);
  }
  // 2. plus everything downstream of an output that is actually rewritten
  CleanEval ce(sc, [&scr, &kr](const std::string& pth, std::string* c) { if (scr.Producer(pth) >= 0) return false; return kr.ReadFile(pth, c); });
  std::set<int> run = affected;
  bool changed = true;
  int guard = 0;
  while (changed && guard++ < 100) {
    changed = false;
    for (int id : closure) {
      if (run.count(id) || sc.stmts[id].phony) continue;
      for (auto& in : EffectiveInputs(id)) {
        int pr = sc.Producer(in);
        if (pr < 0 || sc.stmts[pr].phony || !run.count(pr)) continue;
        const Stmt& t = sc.stmts[pr];
        const DyndepEntry* te = sc.DyndepFor(pr);
        bool restat = t.restat || (te && te->restat);
        bool rewritten = true;
        if (restat) {
          std::string want, have;
          if (ce.Content(in, &want) && k.ReadFile(in, &have) && want == have) rewritten = false;
        }
        if (rewritten) { run.insert(id); changed = true; break; }
      }
    }
  }
  expected_run = run;
  expected_valid = true;
  if (getenv("SIM_DEBUG_EXPECTED")) {
    std::string m = "[" + label + "] expected:";
    for (int id : run) m += " " + S(id);
    m += " | affected:";
    for (int id : affected) m += " " + S(id);
    for (int id : closure) { m += " | in(" + S(id) + ")="; for (auto& in : EffectiveInputs(id)) m += in + ","; }
    HPrintf("%s\n", m.c_str());
  }
}

void World::UpdateCleanState(const InvRecord& r) {
  if (r.plan.dry || !r.plan.tool.empty()) return;
  for (const SpawnRec& x : r.spawns) {
    if (x.epoch != r.epochs && r.epochs > 1) continue;
    const Stmt& s = sc.stmts[x.stmt];
    if (!x.reap_seq || x.reap_status != 0) { clean_state.erase(x.stmt); continue; }   // an unsuccessful run leaves no trusted state
    // recorded?  (a killed or failing ninja may not have got to the log)
    bool recorded = true;
    uint64_t want = NinjaCommandHash(FullCmd(sc, s));
    for (auto& o : x.outs) { auto a = r.log_after.last.find(o); if (a == r.log_after.last.end() || a->second.hash != want) recorded = false; }
    if (!recorded) { clean_state.erase(x.stmt); continue; }
    CleanState st;
    st.cmd_hash = want;
    st.in_mtime = x.in_mtime_at_start;
    for (auto& in : EffectiveInputs(x.stmt)) if (!st.in_mtime.count(in)) st.in_mtime[in] = x.in_mtime_at_start.count(in) ? x.in_mtime_at_start.at(in) : 0;
    for (auto& o : sc.DeclaredOuts(x.stmt)) st.out_mtime[o] = k.Mtime(o);
    clean_state[x.stmt] = st;
  }
  // (whatever happened to files other than through commands is seen as a changed
  // mtime next time; lost log records are looked up in the logs themselves)
}

void World::CheckMinimality(const InvRecord& r) {
  if (!expected_valid || r.plan.dry || !r.plan.tool.empty() || r.epochs > 1) return;
  if (r.res.end != ProcResult::kExit) return;
  std::set<int> ran;
  for (const SpawnRec& x : r.spawns) ran.insert(x.stmt);
  bool exact = r.ok() && r.quiet();
  auto why = [&](int id) {
    std::string w;
    for (auto& in : EffectiveInputs(id)) { int pr = sc.Producer(in); if (pr >= 0 && ran.count(pr)) w += " (its input " + in + " comes from statement " + S(pr) + ", which ran)"; }
    return w;
  };
  for (int id : ran)
    if (!expected_run.count(id)) {
      // K20: restat that comes from a dyndep file is unknown while that file is pending
      const Stmt& xs = sc.stmts[id];
      const DyndepEntry* xe = sc.DyndepFor(id);
      const DyndepFile* xd = xs.dyndep.empty() ? nullptr : sc.FindDyndep(xs.dyndep);
      bool producer_dirty = false;
      if (xd && xd->producer >= 0) { if (ran.count(xd->producer)) producer_dirty = true; for (int q : StmtClosure(xd->producer)) if (ran.count(q)) producer_dirty = true; }
      if (xe && xe->restat && producer_dirty) {
        Report("C03", "extra_command_pending_restat", "statement " + S(id) + " ran although nothing it reads was rewritten: its restat attribute comes from dyndep file " + xs.dyndep + ", which was pending because its producer had to run");
        continue;
      }
      Report("C03", "extra_command", "statement " + S(id) + " ran although neither its inputs, command line, recorded dependencies nor outputs changed and nothing it reads was rewritten" + why(id));
    }
  if (exact)
    for (int id : expected_run)
      if (!ran.count(id))
        Report("C03", "missing_command", "statement " + S(id) + " was affected by the change (or is downstream of a rewritten output) but did not run");
  if (exact) {
    stats->n["minimality_exact_checks"]++;
    // named sub-oracles
    for (int id : Closure(EffectiveTargets(r.plan), true)) {
      const Stmt& s = sc.stmts[id];
      if (s.phony || ran.count(id)) continue;
      for (auto& p : s.oo_ins) { int pr = sc.Producer(p); if (pr >= 0 && ran.count(pr)) { stats->n["order_only_change_ran_nothing_downstream"]++; break; } }
      for (auto& in : EffectiveInputs(id)) { int pr = sc.Producer(in); if (pr >= 0 && ran.count(pr) && (sc.stmts[pr].restat)) { stats->n["restat_noop_pruned"]++; break; } }
      if (s.generator && clean_state.count(id) && clean_state[id].cmd_hash != NinjaCommandHash(FullCmd(sc, s))) stats->n["generator_cmdline_change_ran_nothing"]++;
    }
  }
}

// C10, direct form: what a successful command reported is what the deps log
// holds for its output afterwards - also when the output itself was left alone
// (restat) and the list merely names other files than before.
void World::CheckRecordedDeps(const InvRecord& r) {
  if (!r.ok() || !r.quiet() || r.plan.dry || !r.plan.tool.empty() || r.plan.garbage_child_output) return;
  if (sc.features & F_HOSTILE_NAMES) return;   // depfile syntax cannot spell those names
  std::map<int, const SpawnRec*> last;
  for (const SpawnRec& x : r.spawns) if (x.deps_kind >= 2 && x.reap_status == 0 && x.stmt >= 0) last[x.stmt] = &x;
  for (auto& kv : last) {
    const SpawnRec& x = *kv.second;
    if (x.outs.empty()) continue;
    if (x.stmt >= (int)sc.stmts.size() || !sc.stmts[x.stmt].alive || sc.stmts[x.stmt].deps_kind != x.deps_kind) continue;   // the manifest changed under the build
    std::set<std::string> want(x.reported_deps.begin(), x.reported_deps.end());
    auto rec = r.deps_after.last.find(x.outs[0]);
    stats->n["recorded_deps_checked"]++;
    if (rec == r.deps_after.last.end()) {
      Report("C10", "deps_not_recorded", "statement " + S(x.stmt) + " ran successfully and reported " + S((int)want.size()) + " dependencies, but the deps log has no record for " + x.outs[0]);
      continue;
    }
    std::set<std::string> have(rec->second.deps.begin(), rec->second.deps.end());
    if (have != want) {
      std::string a, b;
      for (auto& p : want) a += p + " ";
      for (auto& p : have) b += p + " ";
      Report("C10", "deps_not_recorded", "statement " + S(x.stmt) + " ran successfully and reported [" + a + "] but the deps log holds [" + b + "] for " + x.outs[0]);
    }
  }
}

// C01, the clause about edits during a build: what makes "a file edited while a
// command that reads it was running is picked up by the next run" true is that
// the log entry of an ordinary command carries the time the command STARTED.
// An entry of a statement that is neither restat (by its rule or its dyndep file)
// nor generator with a later time means that every edit between the start and that
// time is invisible to the next build.
void World::CheckLogTimes(const InvRecord& r) {
  if (r.plan.dry || !r.plan.tool.empty() || r.fault_fired || r.log_torn_tail_before) return;
  if (r.res.end != ProcResult::kExit || !r.log_after.valid_header) return;
  if (r.log_restated) return;   // `-t restat` records the outputs' own times, by design
  for (const SpawnRec& x : r.spawns) {
    if (x.stmt < 0 || x.stmt >= (int)sc.stmts.size() || x.reap_status != 0 || !x.reap_seq || x.outs.empty()) continue;
    const Stmt& s = sc.stmts[x.stmt];
    const DyndepEntry* de = sc.DyndepFor(x.stmt);
    if (s.restat || s.generator || s.phony || (de && de->restat)) continue;
    auto a = r.log_after.last.find(x.outs[0]);
    if (a == r.log_after.last.end()) continue;
    auto b = r.log_before.last.find(x.outs[0]);
    bool fresh = b == r.log_before.last.end() || b->second.start != a->second.start || b->second.end != a->second.end || b->second.mtime != a->second.mtime || b->second.hash != a->second.hash;
    if (!fresh) continue;
    stats->n["log_start_time_checked"]++;
    if (a->second.mtime > x.time)
      Report("C01", "edit_window_missed", "the build-log entry of statement " + S(x.stmt) + " (not restat, not generator) carries time " + S(a->second.mtime) + ", later than the start of its command at " + S(x.time) + ": an input edited in between is not picked up by the next build");
  }
}

void World::CheckAll(InvRecord& r) {
  CheckTermination(r);
  CheckOrdering(r);
  CheckFailures(r);
  CheckRsp(r);
  CheckCycles(r, r.dd_at_start);
  CheckInterrupt(r);
  CheckOutput(r);
  CheckContent(r, "C01");
  CheckMinimality(r);
  CheckRecordedDeps(r);
  CheckLogTimes(r);
  UpdateCleanState(r);
}

}  // namespace sim
