// Structured truth about a generated build: who reads what, who writes what.
// The manifest text is printed from it; oracles use it, never ninja's parse.
#pragma once
#include <map>
#include <set>
#include <string>
#include <vector>
#include "kernel.h"

namespace sim {

enum Feature : uint32_t {
  F_IMPLICIT = 1u << 0, F_ORDERONLY = 1u << 1, F_MULTIOUT = 1u << 2, F_PHONY = 1u << 3,
  F_RESTAT = 1u << 4, F_GENERATOR = 1u << 5, F_DEPFILE = 1u << 6, F_DEPSGCC = 1u << 7,
  F_DEPSMSVC = 1u << 8, F_RSP = 1u << 9, F_POOLS = 1u << 10, F_CONSOLE = 1u << 11,
  F_VALIDATION = 1u << 12, F_DYNDEP = 1u << 13, F_BUILDDIR = 1u << 14, F_DEFAULT = 1u << 15,
  F_SUBDIRS = 1u << 16, F_HOSTILE_NAMES = 1u << 17, F_REGEN = 1u << 18, F_SUBNINJA = 1u << 19,
  F_GEN_HEADERS = 1u << 20,   // hidden includes that are outputs of other statements
  F_PHONY_NOINPUT = 1u << 21, // input-less phony (documented always-dirty case)
  F_HIDDEN_NOPATH = 1u << 22, // generated hidden include without a manifest path (C10 only)
  F_DESCRIPTION = 1u << 23,
  F_ALL = 0xffffffffu
};

struct DyndepEntry {
  int stmt = -1;                        // consumer statement
  std::vector<std::string> imp_ins;     // added implicit inputs
  std::vector<std::string> imp_outs;    // added implicit outputs
  bool restat = false;
};
struct DyndepFile {
  std::string path;
  int producer = -1;                    // statement that writes it, -1 = source file
  std::vector<DyndepEntry> entries;
  bool detached = false;                // C11 second world: the file stays, its information lives in the manifest
};

struct Stmt {
  int id = 0;
  bool alive = true;
  bool phony = false;
  std::vector<std::string> outs, imp_outs;
  std::vector<std::string> ins, imp_ins, oo_ins;
  std::vector<std::string> extra_imp;   // declared as implicit inputs in the manifest, but not necessarily read (C10 second world)
  std::vector<std::string> validations;
  bool restat = false, generator = false;
  int deps_kind = 0;                    // 0 none, 1 depfile only, 2 deps=gcc, 3 deps=msvc
  std::string depfile;
  bool rsp = false;
  std::string rsp_path;
  int rsp_kind = 0;                     // 0 $in, 1 $in_newline, 2 literal
  std::string rsp_literal;
  std::string pool;                     // "" default, "console", or a named pool
  std::string dyndep;                   // dyndep file path ("" none)
  std::vector<std::string> hidden;      // candidate hidden includes
  int key = 0;                          // semantic key: part of what the command computes
  int cosmetic = 0;                     // changes the command line (and its hash) only
  bool regen = false;                   // this statement rewrites build.ninja
  bool description = false;
  std::vector<std::string> AllOuts() const { auto v = outs; v.insert(v.end(), imp_outs.begin(), imp_outs.end()); return v; }
};

struct Scenario {
  uint32_t features = 0;
  std::vector<std::string> sources;
  std::vector<Stmt> stmts;
  std::map<std::string, int> pools;     // name -> depth
  std::vector<std::string> defaults;
  std::string builddir;
  std::vector<DyndepFile> dyndeps;
  bool subninja = false;                // second half of the statements lives in sub.ninja
  int cycle_kind = -1;                  // -1 none; 0 manifest input, 1 dyndep source file, 2 dyndep produced mid-build, 3 discovered dependency
  std::string cycle_note;

  // ---- queries (all over the structured truth)
  int Producer(const std::string& path) const;          // statement id or -1 (includes dyndep-added outputs)
  const DyndepFile* FindDyndep(const std::string& path) const;
  const DyndepEntry* DyndepFor(int stmt) const;
  std::vector<std::string> DeclaredOuts(int stmt) const; // outs + imp_outs + dyndep-added
  bool IsSource(const std::string& p) const;
  std::string LogDir() const { return builddir.empty() ? "" : builddir + "/"; }

  // ---- text
  std::string ManifestText() const;                     // build.ninja
  std::string SubManifestText() const;                  // sub.ninja when subninja
  std::string DyndepText(const DyndepFile& d) const;
  std::string CommandLine(const Stmt& s) const;         // reference expansion of `command`
  std::string RspContent(const Stmt& s) const;          // reference expansion of rspfile_content
  std::string RuleCommandText(const Stmt& s) const;     // with $in/$out variables
};

std::string ShellEscape(const std::string& s);          // reference for $in/$out
std::string NinjaPathEscape(const std::string& s);      // path inside a manifest

struct GenParams {
  uint32_t features = F_ALL & ~(F_HOSTILE_NAMES | F_HIDDEN_NOPATH);
  int max_stmts = 10;
  int max_sources = 5;
  bool cycles = false;       // C17: close a dependency cycle in some scenarios
};
Scenario GenerateScenario(Tape& t, int stream, const GenParams& gp);

// The line prefix a deps = msvc statement's compiler announces includes with: the default, or
// (one statement in three) a localised one bound as msvc_deps_prefix on the rule or the statement.
std::string MsvcPrefix(const Stmt& s);

// Content model ---------------------------------------------------------
// Returns the active hidden includes of a statement given file contents.
typedef std::function<bool(const std::string& path, std::string* content)> ContentFn;
std::vector<std::string> ActiveHidden(const Scenario& sc, const Stmt& s, const ContentFn& get);
// The read set of a statement (paths), given contents for hidden selection.
std::vector<std::string> ReadSet(const Scenario& sc, const Stmt& s, const ContentFn& get);
// Output content from a snapshot of the read set.
std::string OutputContent(const Stmt& s, int out_index, const std::vector<std::pair<std::string, std::string>>& snapshot,
                          const std::string& rsp_content);

// From-scratch build evaluator over current sources + scenario.
struct CleanEval {
  const Scenario& sc;
  ContentFn source;                    // contents of non-generated files
  std::map<std::string, std::string> memo;
  std::set<int> in_progress;
  CleanEval(const Scenario& s, ContentFn src) : sc(s), source(std::move(src)) {}
  bool Content(const std::string& path, std::string* out);   // false = file does not exist in a clean build
};

}  // namespace sim
