// Fixed-address bump arena behind operator new while simulated code runs.
// Pointer values inside a simulated process are then a pure function of the
// run, so pointer-ordered containers in ninja iterate deterministically
// (DESIGN section 2.3).
#include <errno.h>
#include <stdint.h>
#include <stdio.h>
#include <stdlib.h>
#include <string.h>
#include <sys/mman.h>
#include <unistd.h>
#include <new>

#if defined(__SANITIZE_ADDRESS__)
#include <sanitizer/asan_interface.h>
#define SIM_ASAN 1
#else
#define ASAN_POISON_MEMORY_REGION(a, s) ((void)(a), (void)(s))
#define ASAN_UNPOISON_MEMORY_REGION(a, s) ((void)(a), (void)(s))
#define SIM_ASAN 0
#endif

namespace sim {
bool g_in_sim = false;          // true while simulated user code runs
static char* const kArenaBase = reinterpret_cast<char*>(0x500000000000ull);
static const size_t kArenaSize = 6ull << 30;
static size_t g_off = 0;        // bytes used
// One simulated ninja process on builds of a dozen statements needs a few MiB;
// past this (256 MiB) it is a runaway allocation (a loop that appends forever), which the
// kernel records as an abnormal end instead of letting it fill the whole arena.
static const size_t kArenaBudget = 256ull << 20;
void SimArenaExhausted();
static size_t g_high = 0;       // high-water mark since last hard reset
static bool g_descending = false;
static bool g_mapped = false;
static const size_t kRedzone = SIM_ASAN ? 16 : 0;
static const size_t kPoisonedPrefix = 192u << 20;

void ArenaInit() {
  if (g_mapped) return;
  void* p = mmap(kArenaBase, kArenaSize, PROT_READ | PROT_WRITE,
                 MAP_PRIVATE | MAP_ANONYMOUS | MAP_NORESERVE | MAP_FIXED_NOREPLACE, -1, 0);
  if (p != kArenaBase) {
    fprintf(stderr, "simninja: cannot map arena at %p: %s\n", kArenaBase, strerror(errno));
    _exit(2);
  }
  g_mapped = true;
  // Red zones only exist in poisoned memory; poisoning all 6 GiB would cost
  // 768 MiB of shadow per worker, so only the part small builds use is armed.
  ASAN_POISON_MEMORY_REGION(kArenaBase, kPoisonedPrefix);
  ASAN_POISON_MEMORY_REGION(kArenaBase + kArenaSize - kPoisonedPrefix, kPoisonedPrefix);
}

// Called at every simulated exec: all memory of the previous process is gone.
void ArenaReset(bool descending) {
  if (g_off) {
    char* lo = g_descending ? kArenaBase + kArenaSize - g_off : kArenaBase;
    ASAN_UNPOISON_MEMORY_REGION(lo, g_off);
    if (g_off > (64u << 20)) {
      madvise(lo, g_off, MADV_DONTNEED);
    } else {
      memset(lo, 0, g_off);   // stale bytes must not leak into the next process
    }
    ASAN_POISON_MEMORY_REGION(lo, g_off);
  }
  g_off = 0;
  g_descending = descending;
}

size_t ArenaUsed() { return g_off; }

static inline bool InArena(const void* p) {
  return p >= kArenaBase && p < kArenaBase + kArenaSize;
}

static void* ArenaAlloc(size_t n, size_t align) {
  if (align < 16) align = 16;
  if (n == 0) n = 1;
  size_t need = (n + align - 1) & ~(align - 1);
  char* p;
  if (!g_descending) {
    size_t start = (g_off + kRedzone + align - 1) & ~(align - 1);
    if (start + need > kArenaBudget) SimArenaExhausted();
    p = kArenaBase + start;
    g_off = start + need;
  } else {
    size_t end = g_off + kRedzone + need;           // distance of block start from top
    end = (end + align - 1) & ~(align - 1);
    if (end > kArenaBudget) SimArenaExhausted();
    p = kArenaBase + kArenaSize - end;
    g_off = end;
  }
  ASAN_UNPOISON_MEMORY_REGION(p, n);
  return p;
}

static void ArenaFree(void* p, size_t n) {
  // never reused inside one process; with a known size (sized deallocation,
  // which the standard containers use) the block is poisoned so that ASan
  // reports a use-after-free as use-after-poison
  if (n) ASAN_POISON_MEMORY_REGION(p, n);
  (void)p; (void)n;
}
}  // namespace sim

using sim::g_in_sim;

static inline void* Alloc(size_t n, size_t align) {
  if (g_in_sim) return sim::ArenaAlloc(n, align);
  void* p;
  if (align <= 16) p = malloc(n ? n : 1);
  else if (posix_memalign(&p, align, n ? n : 1) != 0) p = nullptr;
  if (!p) { fprintf(stderr, "simninja: out of memory\n"); _exit(2); }
  return p;
}
static inline void Free(void* p, size_t n = 0) {
  if (!p) return;
  if (sim::InArena(p)) { sim::ArenaFree(p, n); return; }
  free(p);
}

void* operator new(size_t n) { return Alloc(n, 16); }
void* operator new[](size_t n) { return Alloc(n, 16); }
void* operator new(size_t n, const std::nothrow_t&) noexcept { return Alloc(n, 16); }
void* operator new[](size_t n, const std::nothrow_t&) noexcept { return Alloc(n, 16); }
void* operator new(size_t n, std::align_val_t a) { return Alloc(n, (size_t)a); }
void* operator new[](size_t n, std::align_val_t a) { return Alloc(n, (size_t)a); }
void operator delete(void* p) noexcept { Free(p); }
void operator delete[](void* p) noexcept { Free(p); }
void operator delete(void* p, size_t n) noexcept { Free(p, n); }
void operator delete[](void* p, size_t n) noexcept { Free(p, n); }
void operator delete(void* p, const std::nothrow_t&) noexcept { Free(p); }
void operator delete[](void* p, const std::nothrow_t&) noexcept { Free(p); }
void operator delete(void* p, std::align_val_t) noexcept { Free(p); }
void operator delete[](void* p, std::align_val_t) noexcept { Free(p); }
void operator delete(void* p, size_t n, std::align_val_t) noexcept { Free(p, n); }
void operator delete[](void* p, size_t n, std::align_val_t) noexcept { Free(p, n); }
