// The only harness file that looks inside ninja: resets the process-global
// state a fresh process would start with (DESIGN section 2.3).
#include <new>
#include "state.h"
#include "debug_flags.h"
#include "metrics.h"
#include "subprocess.h"

namespace sim {
void ResetNinjaGlobals() {
  // Pool accounting is static and would leak from an aborted build into the
  // next simulated process.  The old objects' heap parts lived in the arena
  // (already gone), so they are re-constructed in place, not destroyed.
  new (&State::kDefaultPool) Pool("", 0);
  new (&State::kConsolePool) Pool("console", 1);
  g_explaining = false;
  g_keep_depfile = false;
  g_keep_rsp = false;
  g_experimental_statcache = true;
  g_metrics = nullptr;
  SubprocessSet::interrupted_ = 0;
  SubprocessSet::s_sigchld_received = 0;
}
}
