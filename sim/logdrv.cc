// Log-session driver (C08, C09): harness code that, as a simulated process on
// the simulated file layer, drives the real BuildLog / DepsLog through chains
// of sessions ending in close, kill or torn write, and compares what Load
// reconstructs with fold models over the durable bytes.
#include <stdio.h>
#include <stdlib.h>
#include <string.h>
#include <algorithm>
#include <map>
#include <unordered_map>
#include <set>
#include <string>
#include <vector>

#include "kernel.h"
#include "models.h"
#include "world.h"   // Violation

#include "build_log.h"
#include "deps_log.h"
#include "disk_interface.h"
#include "graph.h"
#include "manifest_parser.h"
#include "state.h"

namespace sim {
extern bool g_in_sim;

namespace {

struct HarnessMode {
  bool saved;
  HarnessMode() : saved(g_in_sim) { g_in_sim = false; }
  ~HarnessMode() { g_in_sim = saved; }
};

struct Viols {
  std::vector<Violation> v;
  void Report(const std::string& prop, const std::string& cls, const std::string& msg) {
    HarnessMode hm;
    for (auto& x : v) if (x.prop == prop && x.cls == cls) return;
    Violation y; y.prop = prop; y.cls = cls; y.msg = msg;
    v.push_back(y);
  }
};

std::string EscPath(const std::string& s) {
  std::string r;
  for (char c : s) { if (c == ' ' || c == ':' || c == '$') r += '$'; r += c; }
  return r;
}

std::string GenName(Tape& t, int st, int idx) {
  static const char* kAlpha[] = {"a", "b", "o", "x/", "dir/", " ", ":", "$", ".", "-", "_", "\xc3\xa9", "#", "'", "\"", "\\", "*", "1", "2", "\x7f"};
  uint32_t shape = t.Choice(st, 12);
  std::string n;
  if (shape == 0) {
    n = std::string(1, 'a' + idx % 26);              // 1 byte
  } else if (shape == 1) {
    size_t len = 200 + t.Choice(st, 200);            // long
    n.assign(len, 'L');
  } else {
    int parts = 1 + (int)t.Choice(st, 5);
    for (int i = 0; i < parts; i++) n += kAlpha[t.Choice(st, 20)];
  }
  n += "_" + std::to_string(idx);                      // unique
  // no leading/trailing slash trouble for the manifest parser's canonicaliser
  while (!n.empty() && n[0] == '/') n.erase(0, 1);
  // canonical form must be stable: avoid "./" and "//"
  std::string c;
  for (size_t i = 0; i < n.size(); i++) {
    if (n[i] == '/' && (c.empty() || c.back() == '/' || c.back() == '.')) continue;
    c += n[i];
  }
  return c;
}

struct LogUser : BuildLogUser {
  std::set<std::string> dead;
  bool IsPathDead(StringPiece s) const override { return dead.count(s.AsString()) > 0; }
};

// ===================================================================== C08
struct IssuedLine { std::string out; std::string line; LogRec rec; };

struct BuildLogChain {
  Tape& t;
  int st;
  bool thorough;
  Viols& viols;
  std::map<std::string, long>& n;
  std::map<std::string, long>& faults;
  Kernel k;
  std::string manifest;
  std::vector<std::vector<std::string>> edges;   // outputs per edge
  std::vector<IssuedLine> issued;                 // every record line ever handed to RecordCommand, in order
  std::map<std::string, uint64_t> true_hash;      // output -> hash of its statement's command
  std::string decoded;
  int clock = 1;
  int fat_edge = -1;
  uint64_t sig = 0;

  BuildLogChain(Tape& tape, int stream, bool th, Viols& v, std::map<std::string, long>& nn, std::map<std::string, long>& ff)
      : t(tape), st(stream), thorough(th), viols(v), n(nn), faults(ff) {}
  uint32_t C(uint32_t m) { return t.Choice(st, m); }
  void Note(const std::string& s) { decoded += s + "\n"; }

  void Setup() {
    k.tape = &t;
    k.MkdirP("/w");
    int ne = 2 + (int)C(5);
    int idx = 0;
    for (int e = 0; e < ne; e++) {
      std::vector<std::string> outs;
      int no = 1 + (int)C(3);
      for (int o = 0; o < no; o++) outs.push_back(GenName(t, st, idx++));
      edges.push_back(outs);
      manifest += "rule r" + std::to_string(e) + "\n  command = cmd" + std::to_string(e) + " $out\n";
      manifest += "build";
      for (auto& o : outs) manifest += " " + EscPath(o);
      manifest += ": r" + std::to_string(e) + "\n";
    }
    if (C(12) == 0) {
      // two fat names: with a few dozen records the log grows past the line reader's 256 KiB
      // buffer, so records straddle a refill
      std::vector<std::string> outs;
      for (int o = 0; o < 2; o++) {
        // (not one repeated character: the checks search these names in the log bytes)
        size_t len = 5000 + C(1500);
        std::string nm;
        for (uint64_t b = 0; nm.size() < len; b++) { char h[20]; snprintf(h, sizeof h, "%016llx", (unsigned long long)Hash64(&b, sizeof b, 77 + o)); nm += h; }
        outs.push_back("fat" + nm.substr(0, len) + "_" + std::to_string(idx++));
      }
      fat_edge = (int)edges.size();
      edges.push_back(outs);
      manifest += "rule rfat\n  command = fat $out\nbuild";
      for (auto& o : outs) manifest += " " + EscPath(o);
      manifest += ": rfat\n";
      n["fat_names"]++;
    }
    if (C(40) == 0) {
      // one very long line (beyond the 256 KiB line reader buffer)
      std::string big(270000 + C(1000), 'B');
      edges.push_back({big});
      manifest += "rule rbig\n  command = big\nbuild " + big + ": rbig\n";
      n["very_long_line"]++;
    }
  }

  // ---- one session; returns false when the chain should stop
  struct Sess {
    int nrec = 0;
    int end = 0;            // 0 close, 1 kill before a write, 2 torn write
    int64_t nth = 0;
    uint32_t keep = 0;
    int op = 0;             // 0 append, 1 restat tool, 2 explicit recompact, 3 bulk (cross the recompaction threshold)
    std::set<std::string> dead;
    std::vector<std::string> restat_subset;
  };

  void RunSession(int sno) {
    Sess s;
    s.op = (int)C(10);
    s.op = s.op < 6 ? 0 : s.op == 6 ? 1 : s.op == 7 ? 2 : s.op == 8 ? 3 : 0;
    s.nrec = s.op == 3 ? 110 + (int)C(60) : (int)C(7);
    s.end = (int)C(4);
    s.end = s.end == 3 ? 0 : s.end;
    // dead outputs for recompaction
    for (auto& e : edges) for (auto& o : e) if (C(6) == 0) s.dead.insert(o);
    for (auto& e : edges) for (auto& o : e) if (C(3) == 0) s.restat_subset.push_back(o);
    // fault position: n-th file write of this session
    s.nth = C((uint32_t)std::max(1, s.nrec * 2 + 2));
    s.keep = C(1 << 20);
    // some outputs exist on disk (for restat)
    for (auto& e : edges) for (auto& o : e) if (C(4) == 0 && o.size() < 4000) { k.WriteFile(o, "x"); }

    std::string before;
    bool had = k.ReadFile(".ninja_log", &before);
    BuildLogFold fold = FoldBuildLog(before, had);

    ProcSpec sp;
    sp.argv = {"logsession"};
    if (s.end == 1) sp.faults.crash_write_nth = s.nth;
    if (s.end == 2) { sp.faults.torn_write_nth = s.nth; sp.faults.torn_keep = s.keep; }
    sp.faults.stream = st;
    // per-session plan decided up front from the tape (harness side)
    struct RecPlan { int edge; int start, end; int64_t mtime; };
    std::vector<RecPlan> plan;
    for (int i = 0; i < s.nrec; i++) {
      RecPlan rp;
      rp.edge = s.op == 3 ? (int)C(2) % (int)edges.size() : (int)C((uint32_t)edges.size());
      if (s.op == 3 && fat_edge >= 0 && C(2) == 0) rp.edge = fat_edge;   // the bulk crosses the 256 KiB buffer as well
      rp.start = clock++; rp.end = clock++;
      rp.mtime = 1000000000000000000ll + (int64_t)C(1000000) * 1000;
      plan.push_back(rp);
    }
    char hdr[160];
    snprintf(hdr, sizeof hdr, "session %d: op=%d records=%d end=%d nth=%ld keep=%u dead=%zu log_before=%zu bytes", sno, s.op, s.nrec, s.end, (long)s.nth, s.keep, s.dead.size(), before.size());
    Note(hdr);
    if (getenv("SIM_DUMP_LOG") && before.size() < 5000) Note("--- .ninja_log before:\n" + before + "---");

    // results filled in by the simulated process
    struct Loaded { std::string out; uint64_t hash; int start, end; int64_t mtime; };
    std::vector<Loaded> loaded;
    int load_status = -1;
    std::string load_err;
    bool reached_load = false;
    bool recompacted = false, restated = false, op_ok = true;
    std::vector<IssuedLine> issued_now;
    std::vector<Loaded> after_op;   // entries() after recompact / restat
    std::string op_err;

    const std::string man = manifest;
    ProcResult res = k.RunFunction(sp, [&]() -> int {
      State state;
      ManifestParser parser(&state, nullptr);
      std::string err;
      if (!parser.ParseTest(man, &err)) { HarnessMode hm; op_err = "manifest: " + std::string(err.c_str()); return 3; }
      BuildLog log;
      LoadStatus ls = log.Load(".ninja_log", &err);
      {
        HarnessMode hm;
        load_status = (int)ls;
        load_err = std::string(err.c_str());
        reached_load = true;
        for (const auto& kv : log.entries()) {
          Loaded l; l.out = std::string(kv.second->output.c_str(), kv.second->output.size());
          l.hash = kv.second->command_hash; l.start = kv.second->start_time; l.end = kv.second->end_time; l.mtime = kv.second->mtime;
          loaded.push_back(l);
        }
      }
      if (ls == LOAD_ERROR) return 2;
      err.clear();
      LogUser user;
      { for (auto& d : s.dead) user.dead.insert(d); }
      auto snapshot = [&](std::vector<Loaded>* out) {
        HarnessMode hm;
        out->clear();
        for (const auto& kv : log.entries()) {
          Loaded l; l.out = std::string(kv.second->output.c_str(), kv.second->output.size());
          l.hash = kv.second->command_hash; l.start = kv.second->start_time; l.end = kv.second->end_time; l.mtime = kv.second->mtime;
          out->push_back(l);
        }
      };
      if (s.op == 1) {
        RealDiskInterface disk;
        std::vector<char*> argv;
        std::vector<std::string> names(s.restat_subset.begin(), s.restat_subset.end());
        for (auto& nm : names) argv.push_back(const_cast<char*>(nm.c_str()));
        bool ok = log.Restat(".ninja_log", disk, (int)argv.size(), argv.data(), &err);
        { HarnessMode hm; restated = true; op_ok = ok; op_err = std::string(err.c_str()); }
        snapshot(&after_op);
        return 0;
      }
      if (s.op == 2) {
        bool ok = log.Recompact(".ninja_log", user, &err);
        { HarnessMode hm; recompacted = true; op_ok = ok; op_err = std::string(err.c_str()); }
        snapshot(&after_op);
        return 0;
      }
      if (!log.OpenForWrite(".ninja_log", user, &err)) { HarnessMode hm; op_ok = false; op_err = std::string(err.c_str()); return 2; }
      for (auto& rp : plan) {
        Edge* edge = state.edges_[rp.edge];
        {
          HarnessMode hm;
          uint64_t h = BuildLog::LogEntry::HashCommand(edge->EvaluateCommand(true));
          for (Node* o : edge->outputs_) {
            IssuedLine il;
            il.out = std::string(o->path().c_str(), o->path().size());
            char b[128];
            snprintf(b, sizeof b, "%d\t%d\t%lld\t", rp.start, rp.end, (long long)rp.mtime);
            char hb[32];
            snprintf(hb, sizeof hb, "\t%llx\n", (unsigned long long)h);
            il.line = std::string(b) + il.out + hb;
            il.rec.start = rp.start; il.rec.end = rp.end; il.rec.mtime = rp.mtime; il.rec.hash = h;
            issued_now.push_back(il);
          }
        }
        if (!log.RecordCommand(edge, rp.start, rp.end, rp.mtime)) { HarnessMode hm; op_ok = false; op_err = "RecordCommand failed"; return 2; }
      }
      log.Close();
      return 0;
    });
    for (auto& kv : res.fired) faults[kv.first] += kv.second;
    for (auto& il : issued_now) issued.push_back(il);
    n["sessions"]++;
    { uint64_t x[4] = {(uint64_t)s.op, (uint64_t)s.end, (uint64_t)res.end, sig}; sig = Hash64(x, sizeof x); }

    if (res.end != ProcResult::kExit && res.end != ProcResult::kCrashed) {
      viols.Report("C13", "abnormal_exit", "log session ended abnormally: " + res.end_detail);
      viols.Report("C08", "log_load_mismatch", "log session ended abnormally: " + res.end_detail);
      return;
    }
    // true hashes (needed for the 'never up to date' rule)
    for (auto& il : issued_now) true_hash[il.out] = il.rec.hash;

    // a restat rewrites records with the files' current mtimes: those lines are legitimate too
    if (s.op == 1) {
      std::set<std::string> sub(s.restat_subset.begin(), s.restat_subset.end());
      for (auto& l : loaded) {
        if (!sub.empty() && !sub.count(l.out)) continue;
        IssuedLine il;
        il.out = l.out;
        il.rec.start = l.start; il.rec.end = l.end; il.rec.hash = l.hash; il.rec.mtime = k.Mtime(l.out);
        char b[128]; snprintf(b, sizeof b, "%d\t%d\t%lld\t", l.start, l.end, (long long)il.rec.mtime);
        char hb[32]; snprintf(hb, sizeof hb, "\t%llx\n", (unsigned long long)l.hash);
        il.line = std::string(b) + l.out + hb;
        issued.push_back(il);
      }
    }
    if (reached_load) CheckLoad(before, had, fold, load_status, load_err, loaded);
    std::string after;
    bool has_after = k.ReadFile(".ninja_log", &after);
    if (res.end == ProcResult::kExit && op_ok) {
      if (recompacted) CheckRecompact(loaded, s.dead, after, has_after, after_op);
      if (restated) CheckRestat(loaded, s.restat_subset, after, has_after);
      // automatic recompaction inside OpenForWrite
      if (!recompacted && !restated && fold.valid_header && fold.total > 100 && fold.total > 3 * (int)fold.last.size()) {
        n["auto_recompaction"]++;
        CheckAutoRecompact(fold, s.dead, after, has_after, issued_now);
      }
    }
    if (res.end == ProcResult::kCrashed) n["sessions_killed"]++;
    if (res.fired.count("torn_write")) n["torn_writes"]++;
  }


  template <class L>
  void CheckLoad(const std::string& bytes, bool had, const BuildLogFold& fold, int status, const std::string& err, const std::vector<L>& loaded) {
    n["loads_checked"]++;
    if (status == (int)LOAD_ERROR) {
      viols.Report("C08", "log_load_mismatch", "BuildLog::Load failed on a log that only ever received appends and torn writes: " + err);
      return;
    }
    if (!had) {
      if (!loaded.empty()) viols.Report("C08", "log_load_mismatch", "entries loaded from a log that does not exist");
      return;
    }
    std::map<std::string, const L*> got;
    for (auto& l : loaded) got[l.out] = &l;
    if (!fold.valid_header) {
      // unsupported or damaged header: discarded, never an error
      if (fold.version != 0 && !loaded.empty())
        viols.Report("C08", "log_load_mismatch", "a log of unsupported version " + std::to_string(fold.version) + " was not discarded");
      return;
    }
    // exactly the completely written records, last per output winning
    for (auto& kv : fold.last) {
      auto g = got.find(kv.first);
      if (g == got.end()) {
        viols.Report("C08", "log_lost_record", "Load lost the complete record of '" + kv.first.substr(0, 60) + "'");
        continue;
      }
      const L& l = *g->second;
      if (l.hash != kv.second.hash || l.mtime != kv.second.mtime || l.start != kv.second.start || l.end != kv.second.end)
        viols.Report("C08", "log_load_mismatch", "Load yields a different record for '" + kv.first.substr(0, 60) + "' than the last complete line of the file");
    }
    for (auto& l : loaded)
      if (!fold.last.count(l.out)) viols.Report("C08", "log_load_mismatch", "Load invented an entry for '" + l.out.substr(0, 60) + "' that no complete line of the file carries");
    // (a line longer than the reader's window is dropped and its remnant re-read
    // mid-line; the simple line view used below does not apply to such a file)
    {
      size_t ls = 0;
      while (ls < bytes.size()) {
        size_t nl = bytes.find('\n', ls);
        if (nl == std::string::npos) nl = bytes.size();
        if (nl - ls + 1 > (256u << 10)) return;
        ls = nl + 1;
      }
    }
    // never up to date without justification: an entry carrying the statement's
    // true hash must equal the latest line in the file that is byte-for-byte a record we issued
    // index of the file: for every line, what follows its second tab -> where the last such line is
    std::unordered_map<std::string, size_t> tail_at;
    for (size_t ls = 0; ls < bytes.size();) {
      size_t nl = bytes.find('\n', ls);
      if (nl == std::string::npos) break;   // an unterminated tail is not a record
      size_t t1 = bytes.find('\t', ls);
      size_t t2x = t1 == std::string::npos || t1 >= nl ? std::string::npos : bytes.find('\t', t1 + 1);
      if (t2x != std::string::npos && t2x < nl) tail_at[bytes.substr(t2x, nl + 1 - t2x)] = t2x;
      ls = nl + 1;
    }
    for (auto& l : loaded) {
      auto th = true_hash.find(l.out);
      if (th == true_hash.end() || th->second != l.hash) continue;
      const IssuedLine* latest = nullptr;
      size_t latest_pos = 0;
      for (auto& il : issued) {
        if (il.out != l.out) continue;
        // last occurrence of the record's decisive part (mtime, output, hash, newline);
        // a fragment merged in front of a complete record can garble its start/end
        // times, which only feed the ETA display
        // (only a fragment without a tab keeps the fields aligned; any other merge
        // turns the line into a record of something else)
        size_t t2 = il.line.find('\t', il.line.find('\t') + 1);
        std::string tail = il.line.substr(t2);
        size_t found = std::string::npos;
        auto hit = tail_at.find(tail);
        if (hit != tail_at.end()) found = hit->second;
        if (found != std::string::npos && (!latest || found >= latest_pos)) { latest = &il; latest_pos = found; }
      }
      // K22: the record was torn inside its hash, and the first digits of the line
      // appended behind it happen to complete exactly the missing hex digits
      bool completed = false;
      if (!latest || latest->rec.mtime != l.mtime) {
        for (auto& il : issued) {
          if (il.out != l.out || il.rec.hash != l.hash || il.rec.mtime != l.mtime) continue;
          std::string body = il.line.substr(0, il.line.size() - 1);
          size_t t4 = body.rfind('\t');
          for (size_t cut = t4 + 1; cut < body.size(); cut++) {
            // the durable fragment body[0..cut) followed by the rest of the hash and then a tab (the next record's first field ended)
            std::string frag = body.substr(0, cut), rest = body.substr(cut);
            size_t pos = 0;
            while ((pos = bytes.find(frag + rest + "\t", pos)) != std::string::npos) {
              if (pos == 0 || bytes[pos - 1] == '\n') completed = true;
              pos++;
            }
          }
        }
      }
      if (completed) {
        viols.Report("C08", "merged_completes_torn_hash", "'" + l.out.substr(0, 60) + "' looks up to date: its record was torn inside the hash and the start time of the record appended behind it supplied exactly the missing hex digits");
      } else if (!latest) {
        viols.Report("C08", "log_false_fresh", "'" + l.out.substr(0, 60) + "' looks up to date (true command hash) although no complete record of it is in the file");
      } else if (latest->rec.mtime != l.mtime) {
        // a later garbled line may only make it look out of date; same hash with other numbers is a fabricated record
        viols.Report("C08", "log_false_fresh", "'" + l.out.substr(0, 60) + "' carries the true command hash with times that no complete record justifies");
      } else {
        n["fresh_entries_justified"]++;
      }
    }
  }

  template <class L>
  void CheckRecompact(const std::vector<L>& loaded, const std::set<std::string>& dead, const std::string& after, bool has_after, const std::vector<L>& mem_after) {
    n["recompactions_checked"]++;
    if (!has_after) { viols.Report("C08", "log_lost_record", "the log is gone after a recompaction that reported success"); return; }
    BuildLogFold fa = FoldBuildLog(after, true);
    for (auto& l : loaded) {
      bool is_dead = dead.count(l.out) > 0;
      auto a = fa.last.find(l.out);
      if (is_dead) {
        if (a != fa.last.end()) viols.Report("C08", "log_load_mismatch", "recompaction kept the dead output '" + l.out.substr(0, 60) + "'");
      } else if (a == fa.last.end()) {
        viols.Report("C08", "log_lost_record", "recompaction dropped the live output '" + l.out.substr(0, 60) + "'");
      } else if (a->second.hash != l.hash || a->second.mtime != l.mtime || a->second.start != l.start || a->second.end != l.end) {
        viols.Report("C08", "log_load_mismatch", "recompaction changed the record of '" + l.out.substr(0, 60) + "'");
      }
    }
    std::set<std::string> had;
    for (auto& l : loaded) had.insert(l.out);
    for (auto& kv : fa.last) if (!had.count(kv.first)) viols.Report("C08", "log_load_mismatch", "recompaction invented '" + kv.first.substr(0, 60) + "'");
    if (fa.total != (int)fa.last.size()) viols.Report("C08", "log_load_mismatch", "recompacted log still has duplicate records");
    (void)mem_after;
  }

  template <class L>
  void CheckRestat(const std::vector<L>& loaded, const std::vector<std::string>& subset, const std::string& after, bool has_after) {
    n["restats_checked"]++;
    if (!has_after) { viols.Report("C08", "log_lost_record", "the log is gone after a restat that reported success"); return; }
    BuildLogFold fa = FoldBuildLog(after, true);
    std::set<std::string> sub(subset.begin(), subset.end());
    for (auto& l : loaded) {
      auto a = fa.last.find(l.out);
      if (a == fa.last.end()) { viols.Report("C08", "log_lost_record", "restat dropped '" + l.out.substr(0, 60) + "'"); continue; }
      if (a->second.hash != l.hash || a->second.start != l.start || a->second.end != l.end)
        viols.Report("C08", "log_load_mismatch", "restat changed more than the mtime of '" + l.out.substr(0, 60) + "'");
      bool selected = sub.empty() || sub.count(l.out);
      int64_t disk = k.Mtime(l.out);
      if (selected) {
        if (a->second.mtime != disk) viols.Report("C08", "log_load_mismatch", "restat recorded mtime " + std::to_string(a->second.mtime) + " for '" + l.out.substr(0, 60) + "' but the file has " + std::to_string(disk));
      } else if (a->second.mtime != l.mtime) {
        viols.Report("C08", "log_load_mismatch", "restat changed the mtime of '" + l.out.substr(0, 60) + "' which was not selected");
      }
    }
    if (fa.last.size() != loaded.size()) viols.Report("C08", "log_load_mismatch", "restat changed the set of recorded outputs");
  }

  void CheckAutoRecompact(const BuildLogFold& before, const std::set<std::string>& dead, const std::string& after, bool has_after,
                          const std::vector<IssuedLine>& appended) {
    if (!has_after) { viols.Report("C08", "log_lost_record", "the log is gone after automatic recompaction"); return; }
    BuildLogFold fa = FoldBuildLog(after, true);
    std::map<std::string, LogRec> want;
    for (auto& kv : before.last) if (!dead.count(kv.first)) want[kv.first] = kv.second;
    for (auto& il : appended) if (il.line.size() <= (256u << 10)) want[il.out] = il.rec;   // longer lines are unreadable by design
    for (auto& kv : want) {
      auto a = fa.last.find(kv.first);
      if (a == fa.last.end()) { viols.Report("C08", "log_lost_record", "automatic recompaction lost the latest record of '" + kv.first.substr(0, 60) + "'"); continue; }
      if (a->second.hash != kv.second.hash || a->second.mtime != kv.second.mtime)
        viols.Report("C08", "log_load_mismatch", "after automatic recompaction '" + kv.first.substr(0, 60) + "' does not carry its latest record");
    }
    for (auto& kv : fa.last) if (!want.count(kv.first)) viols.Report("C08", "log_load_mismatch", "automatic recompaction kept or invented '" + kv.first.substr(0, 60) + "'");
  }

  void Damage() {
    std::string b;
    if (!k.ReadFile(".ninja_log", &b)) return;
    uint32_t kind = C(6);
    if (kind == 0) {           // unsupported version header
      static const char* kHdr[] = {"# ninja log v5\n", "# ninja log v6\n", "# ninja log v8\n", "# ninja log v99\n", "# ninja log v4\n"};
      size_t nl = b.find('\n');
      if (nl != std::string::npos) b = std::string(kHdr[C(5)]) + b.substr(nl + 1);
      Note("damage: version header replaced");
      n["unsupported_version"]++;
    } else if (kind == 1 && !b.empty()) {   // truncation at any byte
      b.resize(C((uint32_t)b.size() + 1));
      Note("damage: truncated to " + std::to_string(b.size()));
      n["truncations"]++;
    } else {
      return;
    }
    k.WriteFile(".ninja_log", b, true);
  }

  void Run() {
    Setup();
    int ns = 2 + (int)C(5);
    for (int i = 0; i < ns; i++) {
      RunSession(i);
      if (C(5) == 0) Damage();
    }
    // final load-only session
    RunSessionLoadOnly();
  }

  void RunSessionLoadOnly() {
    // a session with zero records and a clean close is a pure load check
    std::string before;
    bool had = k.ReadFile(".ninja_log", &before);
    BuildLogFold fold = FoldBuildLog(before, had);
    if (before.size() > 262144) n["log_over_256k_loaded"]++;
    struct Loaded { std::string out; uint64_t hash; int start, end; int64_t mtime; };
    std::vector<Loaded> loaded;
    int status = -1;
    std::string lerr;
    ProcSpec sp;
    sp.argv = {"logload"};
    sp.faults.stream = st;
    ProcResult res = k.RunFunction(sp, [&]() -> int {
      BuildLog log;
      std::string err;
      LoadStatus ls = log.Load(".ninja_log", &err);
      HarnessMode hm;
      status = (int)ls;
      lerr = std::string(err.c_str());
      for (const auto& kv : log.entries()) {
        Loaded l; l.out = std::string(kv.second->output.c_str(), kv.second->output.size());
        l.hash = kv.second->command_hash; l.start = kv.second->start_time; l.end = kv.second->end_time; l.mtime = kv.second->mtime;
        loaded.push_back(l);
      }
      return 0;
    });
    if (res.end != ProcResult::kExit) { viols.Report("C08", "log_load_mismatch", "load-only session ended abnormally: " + res.end_detail); return; }
    CheckLoad(before, had, fold, status, lerr, loaded);
  }
};

// ===================================================================== C09
struct DepsChain {
  Tape& t;
  int st;
  bool thorough;
  Viols& viols;
  std::map<std::string, long>& n;
  std::map<std::string, long>& faults;
  Kernel k;
  std::vector<std::string> outs, deps;   // path pools
  std::set<std::string> live;            // outputs that still have a deps= statement
  std::string decoded;
  uint64_t sig = 0;
  // what each session recorded (for the append-after-recover rule)
  DepsChain(Tape& tape, int stream, bool th, Viols& v, std::map<std::string, long>& nn, std::map<std::string, long>& ff)
      : t(tape), st(stream), thorough(th), viols(v), n(nn), faults(ff) {}
  uint32_t C(uint32_t m) { return t.Choice(st, m); }
  void Note(const std::string& s) { decoded += s + "\n"; }

  std::string PathOfLen(size_t len, int idx) {
    std::string tag = "_" + std::to_string(idx);
    std::string s;
    if (len <= tag.size()) { s = tag.substr(0, len ? len : 1); if (s[0] == '_') s[0] = (char)('a' + idx % 26); return s; }
    s.assign(len - tag.size(), 'p');
    return s + tag;
  }

  void Setup() {
    k.tape = &t;
    k.MkdirP("/w");
    int no = 2 + (int)C(5), nd = 2 + (int)C(8);
    int idx = 0;
    for (int i = 0; i < no; i++) { outs.push_back(PathOfLen(1 + C(12), idx)); idx++; }
    for (int i = 0; i < nd; i++) {
      size_t len = 1 + C(12);
      if (C(30) == 0) len = 5000 + C(100000);       // long path
      deps.push_back(PathOfLen(len, idx)); idx++;
    }
    // a path right at the record-size limit (2^19-1 bytes with padding and checksum): the writer
    // must refuse exactly what the loader would refuse
    if (C(25) == 1) { deps.push_back(PathOfLen(524270 + C(30), idx)); idx++; n["path_at_record_limit"]++; }
    // uniqueness
    std::set<std::string> seen;
    for (auto* v : {&outs, &deps}) for (auto& p : *v) { while (seen.count(p)) p += "u"; seen.insert(p); }
    for (auto& o : outs) live.insert(o);
  }

  std::string ManifestText() const {
    std::string m = "rule cc\n  command = cc $out\n  deps = gcc\n  depfile = $out.d\nrule plain\n  command = plain $out\n";
    for (auto& o : outs) m += "build " + EscPath(o) + ": " + (live.count(o) ? "cc" : "plain") + "\n";
    return m;
  }

  struct Got { bool has = false; int64_t mtime = 0; std::vector<std::string> deps; };
  struct RecPlan { int out; int64_t mtime; std::vector<int> deps; };
  std::map<int, RecPlan> last_plan;   // last record planned per output (across sessions)

  void RunSession(int sno) {
    int op = (int)C(10);
    op = op < 7 ? 0 : op == 7 ? 1 : 0;       // 0 append, 1 explicit recompact
    int nrec = (int)C(6);
    if (C(25) == 0) nrec = 1100 + (int)C(200);   // cross the 1000-record threshold
    int end = (int)C(4);
    end = end == 3 ? 0 : end;
    int64_t nth = C((uint32_t)std::max(1, nrec * 3 + 2));
    uint32_t keep = C(1 << 20);
    if (op == 1 && C(2) == 0 && live.size() > 1) { auto it = live.begin(); std::advance(it, C((uint32_t)live.size())); live.erase(it); }

    std::string before;
    bool had = k.ReadFile(".ninja_deps", &before);
    DepsLogFold fold = FoldDepsLog(before, had);

    std::vector<RecPlan> plan;
    for (int i = 0; i < nrec; i++) {
      RecPlan rp;
      rp.out = nrec > 1000 ? (int)C(2) % (int)outs.size() : (int)C((uint32_t)outs.size());
      rp.mtime = 1 + (int64_t)C(1000000) + ((int64_t)C(1000) << 32);
      int ndp = (int)C(5);
      for (int j = 0; j < ndp; j++) rp.deps.push_back((int)C((uint32_t)deps.size()));
      // sometimes the same output is recorded again with the same mtime and the
      // same number of dependencies but other ones (a restat command whose
      // include set changed while its output did not)
      if (C(4) == 0 && last_plan.count(rp.out)) {
        const RecPlan& prev = last_plan[rp.out];
        rp.mtime = prev.mtime;
        rp.deps = prev.deps;
        if (!rp.deps.empty()) {
          uint32_t how = C(3);
          if (how == 0) std::reverse(rp.deps.begin(), rp.deps.end());
          else rp.deps[C((uint32_t)rp.deps.size())] = (int)C((uint32_t)deps.size());
        }
        n["same_mtime_rerecord"]++;
      }
      last_plan[rp.out] = rp;
      plan.push_back(rp);
    }
    char hdr[160];
    snprintf(hdr, sizeof hdr, "session %d: op=%d records=%d end=%d nth=%ld keep=%u before=%zu bytes good=%zu", sno, op, nrec, end, (long)nth, keep, before.size(), fold.good_size);
    Note(hdr);

    ProcSpec sp;
    sp.argv = {"depssession"};
    if (end == 1) sp.faults.crash_write_nth = nth;
    if (end == 2) { sp.faults.torn_write_nth = nth; sp.faults.torn_keep = keep; }
    sp.faults.stream = st;

    std::map<std::string, Got> got;          // after Load
    std::map<std::string, Got> got_after;    // after recompaction
    int status = -1;
    std::string lerr, op_err;
    bool reached = false, op_ok = true, recompacted = false;
    std::vector<std::pair<std::string, Got>> recorded_ok;   // RecordDeps calls that returned true, in order
    size_t size_after_load = 0;
    bool exists_after_load = false;
    const std::string man = ManifestText();
    const std::vector<std::string> all_outs = outs, all_deps = deps;
    Kernel* kp = &k;

    ProcResult res = k.RunFunction(sp, [&]() -> int {
      State state;
      ManifestParser parser(&state, nullptr);
      std::string err;
      if (!parser.ParseTest(man, &err)) { HarnessMode hm; op_err = "manifest: " + std::string(err.c_str()); op_ok = false; return 3; }
      DepsLog log;
      LoadStatus ls = log.Load(".ninja_deps", &state, &err);
      auto snapshot = [&](std::map<std::string, Got>* dst) {
        for (auto& o : all_outs) {
          Node* nd = state.LookupNode(o);
          DepsLog::Deps* d = nd ? log.GetDeps(nd) : nullptr;
          HarnessMode hm;
          Got g;
          if (d) {
            g.has = true; g.mtime = d->mtime;
            for (int i = 0; i < d->node_count; i++) g.deps.push_back(std::string(d->nodes[i]->path().c_str(), d->nodes[i]->path().size()));
          }
          (*dst)[o] = g;
        }
      };
      {
        { HarnessMode hm; status = (int)ls; lerr = std::string(err.c_str()); reached = true; }
        snapshot(&got);
        HarnessMode hm;
        std::string cur;
        exists_after_load = kp->ReadFile(".ninja_deps", &cur);
        size_after_load = cur.size();
      }
      if (ls == LOAD_ERROR) return 2;
      err.clear();
      if (op == 1) {
        bool ok = log.Recompact(".ninja_deps", &err);
        { HarnessMode hm; recompacted = true; op_ok = ok; op_err = std::string(err.c_str()); }
        snapshot(&got_after);
        return 0;
      }
      if (!log.OpenForWrite(".ninja_deps", &err)) { HarnessMode hm; op_ok = false; op_err = std::string(err.c_str()); return 2; }
      for (auto& rp : plan) {
        Node* out = state.GetNode(all_outs[rp.out], 0);
        std::vector<Node*> dn;
        for (int j : rp.deps) dn.push_back(state.GetNode(all_deps[j], 0));
        bool ok = log.RecordDeps(out, rp.mtime, dn);
        HarnessMode hm;
        if (!ok) { op_ok = false; op_err = "RecordDeps failed"; return 2; }
        Got g; g.has = true; g.mtime = rp.mtime;
        for (int j : rp.deps) g.deps.push_back(all_deps[j]);
        recorded_ok.emplace_back(all_outs[rp.out], g);
      }
      log.Close();
      return 0;
    });
    for (auto& kv : res.fired) faults[kv.first] += kv.second;
    n["sessions"]++;
    { uint64_t x[4] = {(uint64_t)op, (uint64_t)end, (uint64_t)res.end, sig}; sig = Hash64(x, sizeof x); }
    if (res.end != ProcResult::kExit && res.end != ProcResult::kCrashed) {
      viols.Report("C13", "abnormal_exit", "deps-log session ended abnormally: " + res.end_detail);
      viols.Report("C09", "log_load_mismatch", "deps-log session ended abnormally: " + res.end_detail);
      return;
    }
    if (!reached) return;
    n["loads_checked"]++;
    // ---- Load: exactly the complete records; torn tail cut off
    if (status == (int)LOAD_ERROR) { viols.Report("C09", "log_load_mismatch", "DepsLog::Load failed: " + lerr); return; }
    if (had && fold.valid_header) {
      for (auto& o : outs) {
        auto f = fold.last.find(o);
        const Got& g = got[o];
        if (f == fold.last.end()) {
          if (g.has) viols.Report("C09", "log_load_mismatch", "GetDeps returns dependencies for '" + o.substr(0, 40) + "' that no complete record carries");
        } else if (!g.has) {
          viols.Report("C09", "log_lost_record", "Load lost the complete deps record of '" + o.substr(0, 40) + "'");
        } else if (g.mtime != f->second.mtime || g.deps != f->second.deps) {
          viols.Report("C09", "log_load_mismatch", "GetDeps for '" + o.substr(0, 40) + "' differs from its most recent complete record");
        } else {
          n["deps_entries_matched"]++;
        }
      }
      if (!fold.clean_eof) {
        n["recovering_loads"]++;
        if (!exists_after_load || size_after_load != fold.good_size)
          viols.Report("C09", "log_load_mismatch", "after loading a log with a damaged tail the file has " + std::to_string(size_after_load) + " bytes; the last complete record ends at " + std::to_string(fold.good_size));
      } else if (exists_after_load && size_after_load != before.size()) {
        viols.Report("C09", "log_load_mismatch", "loading an undamaged log changed its size");
      }
    }
    std::string after;
    bool has_after = k.ReadFile(".ninja_deps", &after);
    DepsLogFold fa = FoldDepsLog(after, has_after);
    // ---- what this session recorded and flushed is there after the session
    if (res.end == ProcResult::kExit && op_ok && !recompacted) {
      std::map<std::string, Got> want;
      if (had && fold.valid_header) for (auto& kv : fold.last) { Got g; g.has = true; g.mtime = kv.second.mtime; g.deps = kv.second.deps; want[kv.first] = g; }
      for (auto& r : recorded_ok) want[r.first] = r.second;
      // automatic recompaction drops entries whose output lost its deps binding
      bool auto_recompact = had && fold.valid_header && fold.total > 1000 && fold.total > 3 * (int)fold.last.size();
      if (auto_recompact) n["auto_recompaction"]++;
      for (auto& kv : want) {
        if (auto_recompact && !live.count(kv.first)) {
          bool rerecorded = false;
          for (auto& r : recorded_ok) if (r.first == kv.first) rerecorded = true;
          if (!rerecorded) continue;
        }
        if (std::find(outs.begin(), outs.end(), kv.first) == outs.end()) continue;
        auto a = fa.last.find(kv.first);
        if (a == fa.last.end() || a->second.mtime != kv.second.mtime || a->second.deps != kv.second.deps)
          viols.Report("C09", "log_lost_record", "after a session that closed normally the file does not hold the latest record of '" + kv.first.substr(0, 40) + "' (appended records must survive a reload)");
      }
      if (has_after && !fa.clean_eof) viols.Report("C09", "log_load_mismatch", "a normally closed session left a log that does not end on a record boundary");
    }
    if (recompacted && res.end == ProcResult::kExit && op_ok) {
      n["recompactions_checked"]++;
      for (auto& o : outs) {
        const Got& g = got[o];
        auto a = fa.last.find(o);
        bool keep = g.has && live.count(o);
        if (keep && (a == fa.last.end() || a->second.mtime != g.mtime || a->second.deps != g.deps))
          viols.Report("C09", "log_lost_record", "recompaction lost or changed the deps of '" + o.substr(0, 40) + "' which still has a deps statement");
        if (!keep && a != fa.last.end())
          viols.Report("C09", "log_load_mismatch", "recompaction kept deps of '" + o.substr(0, 40) + "' although it has none to keep");
        // in-memory view after recompaction agrees
        const Got& ga = got_after[o];
        if (keep && (!ga.has || ga.mtime != g.mtime || ga.deps != g.deps))
          viols.Report("C09", "log_load_mismatch", "in-memory deps of '" + o.substr(0, 40) + "' changed across recompaction");
      }
      if (fa.total != (int)fa.last.size()) viols.Report("C09", "log_load_mismatch", "recompacted deps log has superseded records");
    }
    if (res.end == ProcResult::kCrashed) n["sessions_killed"]++;
    if (res.fired.count("torn_write")) n["torn_writes"]++;
  }

  void Damage() {
    std::string b;
    if (!k.ReadFile(".ninja_deps", &b) || b.empty()) return;
    uint32_t kind = C(5);
    if (kind == 0) {
      b.resize(C((uint32_t)b.size() + 1));
      Note("damage: truncated to " + std::to_string(b.size()));
      n["truncations"]++;
    } else if (kind == 1) {
      size_t cut = C((uint32_t)b.size() + 1);
      b.resize(cut);
      int extra = 1 + (int)C(40);
      for (int i = 0; i < extra; i++) b += (char)C(256);
      Note("damage: random tail after byte " + std::to_string(cut));
      n["random_tails"]++;
    } else if (kind == 2) {
      // a tail that looks like a record but whose fields sit on the edge of what is valid: cut at a
      // record boundary, then a dependency record whose output id (or a dependency id) is the number of
      // paths read so far - one past the last valid id -, or just around it
      if (b.size() < 16) return;
      size_t off = 16, npaths = 0;
      std::vector<std::pair<size_t, size_t>> bounds;   // (offset, paths before it)
      bounds.emplace_back(off, 0);
      while (off + 4 <= b.size()) {
        uint32_t sz; memcpy(&sz, &b[off], 4);
        bool is_deps = (sz >> 31) != 0; sz &= 0x7fffffffu;
        if (sz % 4 != 0 || off + 4 + sz > b.size()) break;
        if (!is_deps) npaths++;
        off += 4 + sz;
        bounds.emplace_back(off, npaths);
      }
      auto pick = bounds[C((uint32_t)bounds.size())];
      b.resize(pick.first);
      int np = (int)pick.second;
      static const int kDelta[] = {0, 0, 0, 1, -1, 2};
      int out_id = np + kDelta[C(6)];
      if (out_id < 0) out_id = 0;
      int ndeps = (int)C(3);
      std::vector<int32_t> words;
      words.push_back(out_id); words.push_back((int32_t)C(1000)); words.push_back(0);
      for (int i = 0; i < ndeps; i++) words.push_back(np > 0 && C(3) ? (int32_t)C((uint32_t)np) : np + kDelta[C(6)]);
      uint32_t sz = (uint32_t)(words.size() * 4) | 0x80000000u;
      b.append((const char*)&sz, 4);
      b.append((const char*)words.data(), words.size() * 4);
      Note("damage: crafted dependency record for output id " + std::to_string(out_id) + " behind " + std::to_string(np) + " path records");
      n["crafted_edge_records"]++;
    } else {
      return;
    }
    k.WriteFile(".ninja_deps", b, true);
  }

  void Run() {
    Setup();
    int ns = 2 + (int)C(5);
    for (int i = 0; i < ns; i++) {
      RunSession(i);
      if (C(3) == 0) Damage();
    }
    RunSession(ns);   // one more load (+ append) after the last damage
  }
};

std::string Hex(uint64_t v) { char b[32]; snprintf(b, sizeof b, "%016llx", (unsigned long long)v); return b; }

}  // namespace

RunResult RunLogChain(Tape& tape, const std::string& profile, bool thorough) {
  RunResult r;
  tape.Reset();
  Viols v;
  std::map<std::string, long>& n = r.stats.n;
  if (profile == "C08") {
    BuildLogChain c(tape, 0, thorough, v, r.stats.n, r.stats.faults);
    c.Run();
    r.decoded = c.decoded;
    r.stats.sig = c.sig;
    r.stats.nontrivial["C08"] = n["torn_writes"] > 0 || n["recompactions_checked"] > 0 || n["restats_checked"] > 0 || n["truncations"] > 0;
  } else {
    DepsChain c(tape, 0, thorough, v, r.stats.n, r.stats.faults);
    c.Run();
    r.decoded = c.decoded;
    r.stats.sig = c.sig;
    r.stats.nontrivial["C09"] = n["torn_writes"] > 0 || n["recovering_loads"] > 0 || n["recompactions_checked"] > 0;
  }
  r.stats.invocations = n["sessions"];
  r.stats.full_hash = Hash64(r.decoded, r.stats.sig);
  r.violations = v.v;
  return r;
}

}  // namespace sim
