#include "kernel.h"
namespace sim { int LogDriverMain(int, char**) { return 2; } }
