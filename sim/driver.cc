// History driver: generates a scenario, then a sequence of operations
// (builds with faults, edits, deletions, manifest changes, tools), and runs
// the oracles after each invocation.
#include "world.h"

#include <signal.h>
#include <stdio.h>
#include <string.h>
#include <stdlib.h>
#include <ctype.h>
#include <algorithm>

namespace sim {

enum { ST_SCEN = 0, ST_HIST = 1, ST_INV0 = 100, ST_FORK0 = 5000 };

Profile GetProfile(const std::string& name, bool thorough) {
  Profile p;
  p.name = name;
  p.gen.max_stmts = thorough ? 24 : 10;
  p.gen.max_sources = thorough ? 8 : 5;
  if (name == "C04S") {
    p.small_graph = true;
    p.gen.max_stmts = 5; p.gen.max_sources = 3;
    p.gen.features = F_IMPLICIT | F_ORDERONLY | F_MULTIOUT | F_PHONY | F_DEPFILE | F_DESCRIPTION;
    p.min_ops = 0; p.max_ops = 0; p.check_convergence = false; p.buggify = false; p.w_inflate_log = 0;
    return p;
  }
  if (name == "C08T") {
    // whole-program side of C08: the log tools from the command line, between ordinary builds
    p.pm_cmd_fail = 40; p.pm_editor = 0; p.pm_tty = 0; p.w_restat_tool = 8; p.w_inflate_log = 3; p.w_manifest_edit = 2;
    p.gen.features &= ~F_REGEN;
    return p;
  }
  if (name == "C03") {
    // no kills or interrupts: what is recorded is exactly what completed
    p.pm_cmd_fail = 40; p.pm_editor = 0; p.w_manifest_edit = 1; p.pm_tty = 100; p.w_inflate_log = 0;
    p.gen.features &= ~F_REGEN;
    p.subset_then_touch = true;
    // (no back-dating commands here: an output re-created with an old time stamp is, for any tool that
    // goes by time stamps, not "rewritten" - the minimality model would have to know the stamps)
  } else if (name == "C01" || name == "C02" || name == "C04") {
    p.pm_cmd_fail = 40; p.pm_interrupt = 60; p.pm_crash = 40; p.pm_editor = 80;
    p.w_manifest_edit = 1; p.pm_tty = 150;
    p.subset_then_touch = true;
    p.generator_restats_log = true;
    p.backdating_cmds = true;
    if (name == "C04") p.prune_empty_dirs = true;
  } else if (name == "C05" || name == "C05R") {
    p.pm_cmd_fail = 220; p.pm_cmd_signal = 60; p.w_edit = 4; p.pm_io_error = 0;
    p.w_missing_source = 2; p.gen.features |= F_VALIDATION;
    p.gen.features &= ~F_REGEN;
    // C05R: manifests with a generator statement, regenerated often, and the generator may fail
    if (name == "C05R") { p.gen.features |= F_REGEN; p.w_regen = 3; p.regen_may_fail = true; p.pm_cmd_fail = 120; }
  } else if (name == "C06") {
    p.pm_cmd_fail = 80; p.pm_interrupt = 80; p.pm_jobserver = 500; p.pm_io_error = 120; p.pm_load = 100; p.w_block_dir = 1;
    p.cmd_interrupt_status = true;
    p.gen.features |= F_POOLS | F_CONSOLE;
  } else if (name == "C07") {
    p.pm_interrupt = 350; p.pm_crash = 300; p.pm_torn = 150; p.pm_cmd_fail = 30;
    p.multi_process_cmds = true; p.backdating_cmds = true;
    p.signal_at_syscall = true;
    p.enumerate_faults = thorough;
  } else if (name == "C16") {
    p.pm_cmd_fail = 150; p.gen.features |= F_RSP | F_HOSTILE_NAMES;
    p.pm_io_error = 120;   // a response file that could not be written in full must not reach a command
  } else if (name == "C20") {
    p.pm_cmd_fail = 120; p.pm_tty = 400; p.hostile_output = true; p.gen.features |= F_CONSOLE;
    p.pm_interrupt = 120;   // output held back for a console command must survive an interrupted build
    p.invalid_dyndep = true; p.gen.features |= F_DYNDEP;   // ... and a build stopped by a dyndep file that does not load
    p.pm_io_error = 100;                                   // ... or by a failing log write / stat of an output
  } else if (name == "C10") {
    p.twin_deps = true; p.check_convergence = false;
    p.gen.features |= F_DEPFILE | F_DEPSGCC | F_DEPSMSVC | F_GEN_HEADERS | F_RESTAT;
    p.gen.features &= ~(F_REGEN | F_DYNDEP);
    p.w_del_log = 0; p.w_del_depfile = 0; p.w_regen = 0; p.w_inflate_log = 0; p.w_include_churn = 6; p.w_edit_includes = 3;
    p.pm_cmd_fail = 0; p.pm_interrupt = 0; p.pm_crash = 0; p.pm_editor = 0; p.buggify = false;
  } else if (name == "C11") {
    p.twin_dyndep = true; p.check_convergence = false;
    p.gen.features |= F_DYNDEP | F_RESTAT | F_ORDERONLY;
    p.w_dyndep_stir = 3; p.w_missing_dyndep_source = 2; p.w_dyndep_restat_stir = 3;
    p.gen.features &= ~F_REGEN;
    p.w_del_log = 0; p.w_del_depfile = 0; p.w_regen = 0; p.w_inflate_log = 0;
    p.pm_cmd_fail = 0; p.pm_interrupt = 0; p.pm_crash = 0; p.pm_editor = 0; p.buggify = false;
  } else if (name == "C17") {
    p.gen.cycles = true; p.cycles = true; p.pm_cmd_fail = 0; p.pm_editor = 0; p.w_dry = 2;
    p.w_clean = 2; p.w_tool_ro = 2;   // tools walk the same (possibly cyclic) graph: they must end, with or without a diagnosis
    p.gen.features |= F_DYNDEP | F_VALIDATION | F_DEPSGCC | F_MULTIOUT | F_HIDDEN_NOPATH;
    p.gen.features &= ~F_REGEN;
  } else if (name == "C18") {
    p.w_clean = 8; p.w_cleandead = 4; p.w_manifest_edit = 4; p.w_build = 8; p.w_del_out = 2; p.pm_cmd_fail = 60;
    p.gen.features |= F_GENERATOR | F_DYNDEP | F_RSP | F_DEPFILE;
  } else if (name == "C19") {
    p.w_tool_ro = 8; p.w_dry = 6; p.w_build = 6; p.pm_cmd_fail = 40; p.gen.features |= F_HOSTILE_NAMES | F_SUBDIRS;
    p.pm_io_error = 150; p.w_block_dir = 2;
  } else if (name == "C13") {
    p.pm_cmd_fail = 80; p.pm_interrupt = 50; p.pm_crash = 100; p.pm_torn = 100; p.pm_io_error = 150; p.damage = true;
    p.pm_tty = 300; p.hostile_output = true;
  }
  return p;
}

namespace {

// What the first world of a metamorphic pair did at each build, for the second.
struct TwinBuild {
  bool comparable = false;               // successful and quiet
  bool plain = false;                    // quiet, not a dry run, ended by exit
  int exit_code = 0;
  std::string last_words;                // tail of what ninja said
  std::set<int> ran;
  std::map<int, std::vector<std::string>> known_hidden;   // what had been discovered *before* this build
  std::map<std::string, std::string> contents;            // outputs after the build
  std::set<int> pending_restat;   // ran although restat: the restat came from a dyndep file whose producer also ran (K20)
};
struct TwinRecords { std::vector<TwinBuild> builds; };

struct Driver {
  Tape& tape;
  const Profile& prof;
  RunResult& rr;
  World w;
  int inv_index = 0;
  int fork_index = 0;
  int builds_done = 0;
  bool dead = false;
  int twin_role = 0;            // 0 none, 1 first world (records), 2 second world (compares)
  TwinRecords* twin = nullptr;
  int build_no = 0;
  bool invalid_dyndep_run = false;   // C11: single-world run with damaged dyndep files
  std::string& log;

  Driver(Tape& t, const Profile& p, RunResult& r) : tape(t), prof(p), rr(r), log(r.decoded) {}
  uint32_t H(uint32_t n) { return tape.Choice(ST_HIST, n); }
  // per-mille coin; tape value 0 (shrunk) = the fault does not happen
  bool Pm(int pm) { return (int)H(1000) >= 1000 - pm; }

  void Note(const std::string& s) { log += s + "\n"; }

  // (K15 leaves the tree without build.ninja, or without the manifest it includes: the history ends there)
  bool ManifestGone() { return !w.k.Exists("build.ninja") || (w.sc.subninja && !w.k.Exists("sub.ninja")); }
  std::vector<std::string> AllOutputs() const {
    std::vector<std::string> v;
    for (const Stmt& s : w.sc.stmts) if (s.alive && !s.regen) for (auto& o : w.sc.DeclaredOuts(s.id)) v.push_back(o);
    return v;
  }
  std::vector<std::string> EditableSources() const {
    std::vector<std::string> v;
    for (auto& p : w.sc.sources) if (!w.sc.FindDyndep(p) && p != "gen.src") v.push_back(p);
    return v;
  }

  int forced_op = -1;          // the next history step, when a macro wants a particular one to follow
  bool force_targets = false;
  std::vector<std::string> forced_targets;   // next build only: exactly these targets ({} = the defaults)
  InvPlan MakeBuildPlan() {
    InvPlan p;
    p.stream = ST_INV0 + inv_index++;
    if (H(10) < 4) {
      std::vector<std::string> outs = AllOutputs();
      int n = 1 + (int)H(2);
      for (int i = 0; i < n && !outs.empty(); i++) {
        std::string t = outs[H((uint32_t)outs.size())];
        // an output only a dyndep file declares is not a name ninja knows on the
        // command line; in the inlined variant it is (C11 compares like with like)
        {
          bool dyn_only = false, named = false;
          for (auto& dd : w.sc.dyndeps) for (auto& e : dd.entries) for (auto& o : e.imp_outs) if (o == t) dyn_only = true;
          if (dyn_only && prof.twin_dyndep) continue;
          // ... and when another statement names it in the manifest - or did, and a deps-log record still
          // does - ninja knows the path but not, before the dyndep file is read, who makes it: asked for by
          // name alone it is a plain file (the way dyndep works, not a behaviour any property describes),
          // so it is not asked for by name once any statement has ever named it
          if (dyn_only) for (const Stmt& q : w.sc.stmts) for (auto* v : {&q.ins, &q.imp_ins, &q.oo_ins}) if (std::find(v->begin(), v->end(), t) != v->end()) named = true;
          if (named) continue;
        }
        if (std::find(p.targets.begin(), p.targets.end(), t) == p.targets.end()) p.targets.push_back(t);
      }
    }
    if (force_targets) { p.targets = forced_targets; force_targets = false; }
    static const int kJ[] = {1, 2, 3, 4, 8, 0};
    p.j = kJ[H(6)];
    if (prof.small_graph) { p.j = 0; p.targets.clear(); }
    p.k = 1;
    if (prof.pm_cmd_fail > 100) { static const int kK[] = {1, 1, 2, 3, 0}; p.k = kK[H(5)]; }
    else if (H(8) == 0) p.k = 0;
    p.verbose = H(6) == 0;
    p.quiet = !p.verbose && H(12) == 0;
    p.explain = H(10) == 0;
    p.keeprsp = H(12) == 0;
    p.keepdepfile = H(12) == 0;
    p.tty = Pm(prof.pm_tty);
    if (prof.pm_tty > 0 && H(4) == 0) { static const int kCol[] = {1, 2, 4, 1 | 2, 1 | 4, 8, 16, 32, 2 | 4, 8 | 2, 16 | 4, 1 | 32}; p.color_env = kCol[H(12)]; }
    p.cols = 20 + (int)H(100);
    p.status_mode = (int)H(3);
    // one build in five of the profiles with terminals uses a status format without the counter of finished
    // commands - consecutive status lines can then be identical (--status without $description) or differ
    // only in the description
    if (prof.pm_tty > 0 && !prof.damage && p.status_mode != 0 && Hash64(&p.cols, sizeof p.cols, (uint64_t)p.stream * 7 + 1) % 5 == 0)
      p.status_fmt = p.status_mode == 1 ? "[%s/%t] " : "[$started/$total]";
    if (Pm(prof.pm_load)) p.l = 1.0 + H(4);
    if (Pm(prof.pm_jobserver)) {
      p.jobserver = true; p.j = -1; p.js_tokens = (int)H(4); p.js_peers = (int)H(3); p.nproc = 1 + (int)H(4);
      // one build in three spells MAKEFLAGS another way; a third of those say "no jobserver"
      if (H(3) == 1) { p.js_variant = 1 + (int)H(8); if (p.js_variant > 3 && H(2)) p.js_variant = 1 + (int)H(3); if (p.js_variant == 8) p.j = 1 + (int)H(4); }
    }
    // command failures
    for (const Stmt& s : w.sc.stmts) {
      if (s.alive && s.regen && prof.regen_may_fail && H(6) == 0) {
        // the generator of build.ninja fails (and, like a real one, leaves the manifest alone)
        int code = 2 + (int)H(120);
        p.fail[s.id] = std::make_pair(code << 8, 0);
      }
      if (!s.alive || s.phony || s.regen) continue;
      int c = 999 - (int)H(1000);
      if (c < prof.pm_cmd_fail) {
        int code = 1 + (int)H(255);
        if (code == 130) code = 131;
        p.fail[s.id] = std::make_pair(code << 8, (int)H(3));
        // a command may itself end like an interrupted one (it exits 130, or it alone got the
        // signal): ninja then stops as if the user had interrupted it
        if (prof.cmd_interrupt_status && H(4) == 0) {
          static const int kSt[] = {130 << 8, SIGINT, SIGTERM, SIGHUP};
          p.fail[s.id].first = kSt[H(4)];
        }
      } else if (c < prof.pm_cmd_fail + prof.pm_cmd_signal) {
        // (SIGSEGV and SIGABRT usually leave a core file: bit 0x80 of the wait status)
        static const int kSig[] = {SIGSEGV | 0x80, SIGKILL, SIGABRT | 0x80};
        p.fail[s.id] = std::make_pair(kSig[H(3)], (int)H(3));
      }
    }
    p.editor = Pm(prof.pm_editor);
    if (Pm(prof.pm_interrupt)) {
      static const int kSig[] = {SIGINT, SIGTERM, SIGHUP};
      p.on_signal = kSig[H(3)] * 100 + (int)H(3);   // signal*100 + child reaction
    }
    if (prof.damage) {
      p.garbage_child_output = H(3) == 0;
      if (H(3) == 0) {
        static const char* kPieces[] = {"%", "%%", "%s", "%f", "%t", "%r", "%u", "%p", "%o", "%c", "%e", "%w", "%E", "%W", "%P", "%x", "%", "$", "$$", "${", "}", "$started", "$finished", "${total}", "$description", "$eta", "$rate", "$bogus", " ", "[", "]", "\x1b[K", "\xff", "abc", "$\n", "$:"};
        int np = (int)H(8);
        for (int i = 0; i < np; i++) p.status_fmt += kPieces[H(36)];
        if (p.status_mode == 0) p.status_mode = 1 + (int)H(2);
      }
      if (H(4) == 0 && p.j != 1) {
        // what a wrapper, a recursive make or a damaged environment may leave in MAKEFLAGS
        static const char* kMf[] = {" ", "\t", "n", "k", "s", "-", "-j", "-j3", "--", "--jobserver-auth=", "--jobserver-fds=", "fifo:", "fifo:build.ninja", "fifo:.", "fifo:no/such", "3,4", "-1,-1", "3,", ",", "99999999999999999999,1", "=", "\xff", "--jobserver-auth=fifo:", "--jobserver-auth=x", "-l2", "0"};
        int np = 1 + (int)H(7);
        for (int i = 0; i < np; i++) p.makeflags += kMf[H(26)];
        p.j = -1;   // an explicit -j makes ninja ignore MAKEFLAGS altogether
      }
    }
    if (prof.buggify && H(2) == 0) {
      p.fp.pm_eintr = 0; (void)H(3);  /* EINTR from read/waitpid cannot happen: ninja blocks its handled signals outside ppoll */ p.fp.pm_short_read = (int)H(3) * 100;
      p.fp.pm_spurious_wake = (int)H(3) * 30; p.fp.pm_eagain_token = (int)H(3) * 100;
      p.fp.pm_slow_wake = p.fp.pm_short_read ? 80 : 0;   // (no draw of its own: rides on the short-read coin)
    }
    return p;
  }

  std::string PlanText(const InvPlan& p) {
    std::string s = "build";
    for (auto& t : p.targets) s += " " + t;
    char b[160];
    snprintf(b, sizeof b, " [-j%d -k%d%s%s%s%s tty=%d status=%d js=%d/%d editor=%d intr=%d]", p.j, p.k, p.dry ? " -n" : "",
             p.verbose ? " -v" : "", p.quiet ? " --quiet" : "", p.l > 0 ? " -l" : "", p.tty, p.status_mode, p.jobserver, p.js_tokens,
             p.editor, p.on_signal);
    s += b;
    for (auto& f : p.fail) { snprintf(b, sizeof b, " fail(%d:st=%d,mode=%d)", f.first, f.second.first, f.second.second); s += b; }
    if (p.fp.crash_at >= 0) { snprintf(b, sizeof b, " crash@%ld", (long)p.fp.crash_at); s += b; }
    if (p.fp.torn_at >= 0) { snprintf(b, sizeof b, " torn@%ld", (long)p.fp.torn_at); s += b; }
    for (auto& sg : p.fp.signals) { snprintf(b, sizeof b, " sig%d@%ld", sg.second, (long)sg.first); s += b; }
    for (auto& ie : p.fp.io_errors) { snprintf(b, sizeof b, " ioerr@%ld", (long)ie.first); s += b; }
    return s;
  }

  std::string ResultText(const InvRecord& r) {
    char b[200];
    snprintf(b, sizeof b, "  -> end=%d exit=%d spawns=%zu syscalls=%ld epochs=%d %s", (int)r.res.end, r.res.exit_code, r.spawns.size(),
             (long)r.res.nsyscalls, r.epochs, r.res.end_detail.c_str());
    std::string s = b;
    s += " ran=[";
    for (auto& x : r.spawns) { s += std::to_string(x.stmt); if (x.reap_status > 0) s += "!"; s += " "; }
    s += "]";
    for (auto& f : r.res.fired) s += " " + f.first + "x" + std::to_string(f.second);
    return s;
  }

  // Convergence (C02): the same build again, twice, in a forked world.
  void CheckConvergence(const InvRecord& r) {
    if (!r.ok() || !r.quiet() || r.plan.dry || !r.plan.tool.empty()) return;
    // a record appended behind a crash-torn log tail is merged with it and may
    // look out of date once more (C08 allows exactly that)
    if (r.log_torn_tail_before) return;
    // a generator command that ended with `ninja -t restat` put the outputs' own mtimes into
    // the log mid-build: what is up to date afterwards is the tool's business (a restat
    // command that left its output alone looks out of date again).  What must still hold:
    // the log ninja goes on writing is the replaced one - every command that finished has
    // a record in it.
    if (r.log_restated) {
      for (const SpawnRec& x : r.spawns) {
        if (!x.reap_seq || x.reap_status != 0) continue;
        for (auto& o : x.outs)
          if (!r.log_after.last.count(o))
            w.Report("C02", "record_lost", "statement " + std::to_string(x.stmt) + " finished successfully but the build log has no record for '" + o + "' after the build (a generator command had replaced the log with `ninja -t restat`)");
      }
      rr.stats.n["convergence_skipped_log_restated"]++;
      return;
    }
    // documented always-dirty case: an input-less phony whose file is missing
    std::vector<std::string> targets = w.EffectiveTargets(r.plan);
    std::set<int> cl = w.Closure(targets, true);
    for (int id : cl) {
      const Stmt& s = w.sc.stmts[id];
      if (s.phony && s.ins.empty() && s.imp_ins.empty() && s.oo_ins.empty() && s.validations.empty() && !w.k.Exists(s.outs[0])) return;
    }
    World f = w.Fork();
    f.label = "convergence";
    // many earlier builds leave many superseded log records; that changes
    // nothing about what is up to date, but makes the next load recompact
    uint32_t inflate = tape.Choice(ST_FORK0 + fork_index, 5);
    if (inflate == 0) { InflateLogs(f, true, false); rr.stats.n["convergence_with_recompaction"]++; }
    for (int round = 0; round < 2; round++) {
      InvPlan p = r.plan;
      p.fail.clear(); p.editor = false; p.on_signal = 0; p.fp = FaultPlan();
      p.jobserver = r.plan.jobserver; p.js_variant = r.plan.js_variant;
      p.stream = ST_FORK0 + fork_index++;
      std::map<std::string, std::pair<uint64_t, int64_t>> before;
      for (auto& kv : f.k.fs.nodes) if (kv.second->kind == Inode::kFile) before[kv.first] = std::make_pair(Hash64(kv.second->data, 7), kv.second->mtime);
      InvRecord r2 = f.RunInvocation(p);
      rr.stats.n["convergence_reruns"]++;
      if (!r2.spawns.empty()) {
        std::string ids;
        for (auto& x : r2.spawns) ids += std::to_string(x.stmt) + " ";
        w.Report("C02", "not_converged", "immediately after a successful build, run " + std::to_string(round + 1) + " of the same build started statements " + ids + (getenv("SIM_SHOW_OUTPUT") ? " stderr=" + r2.res.err.substr(0, 1500) + " stdout=" + r2.res.out.substr(0, 3000) : ""));
        return;
      }
      if (r2.res.end != ProcResult::kExit || r2.res.exit_code != 0) {
        w.Report("C02", "not_converged", "re-running a successful build exited " + std::to_string(r2.res.exit_code) + " " + r2.res.end_detail + " stderr=" + r2.res.err.substr(0, 100));
        return;
      }
      if (!p.quiet && r2.res.out.find("ninja: no work to do.") == std::string::npos) {
        w.Report("C02", "not_converged", "re-running a successful build did not report 'no work to do': " + r2.res.out.substr(0, 100));
        return;
      }
      for (auto& kv : f.k.fs.nodes) {
        if (kv.second->kind != Inode::kFile) continue;
        auto b = before.find(kv.first);
        bool is_log = kv.first.find(".ninja_log") != std::string::npos || kv.first.find(".ninja_deps") != std::string::npos || kv.first.find("js.fifo") != std::string::npos;
        if (b == before.end()) {
          if (!is_log) { w.Report("C02", "not_converged", "a no-op build created " + kv.first); return; }
        } else if (b->second.first != Hash64(kv.second->data, 7) && !is_log) {
          w.Report("C02", "not_converged", "a no-op build changed " + kv.first);
          return;
        }
      }
    }
    rr.stats.nontrivial["C02"] = true;
  }

  // C05: with failures left in the budget, everything independent must have
  // run; and a failed command is retried while the cause persists.
  void CheckFailureFollowUp(const InvRecord& r) {
    if (!w.missing_source.empty()) return;   // stopped on a graph error, not on a failed command
    if (r.res.end != ProcResult::kExit || r.res.exit_code == 0 || r.interrupted || r.external_edit || r.plan.dry) return;
    for (auto& kv : r.res.fired) if (kv.first != "crash" && kv.first.compare(0, 3, "io_") == 0) return;
    std::set<int> failed;
    for (auto& x : r.spawns) if (x.reap_seq && x.reap_status != 0) failed.insert(x.stmt);
    if (failed.empty() || r.epochs > 1) return;
    for (auto& x : r.spawns) if (x.reap_status > 0 && (x.reap_status & 0x7f) != 0) {
      int sg = x.reap_status & 0x7f;
      if (sg == SIGINT || sg == SIGTERM || sg == SIGHUP) return;
    }
    bool budget_left = r.plan.k == 0 || (int)failed.size() < r.plan.k;
    World f = w.Fork();
    f.label = "failure-followup";
    InvPlan p = r.plan;
    p.editor = false; p.on_signal = 0; p.fp = FaultPlan();
    p.stream = ST_FORK0 + fork_index++;
    InvRecord r2 = f.RunInvocation(p);
    rr.stats.n["failure_followups"]++;
    std::set<int> ran2;
    for (auto& x : r2.spawns) ran2.insert(x.stmt);
    // retried: a failed statement whose own prerequisites did not fail runs again
    std::set<int> failed2;
    for (auto& x : r2.spawns) if (x.reap_status != 0) failed2.insert(x.stmt);
    for (int fid : failed) {
      bool blocked = false;
      for (int q : w.StmtClosure(fid)) if (failed.count(q) || failed2.count(q)) blocked = true;
      if (!blocked && !ran2.count(fid) && r2.res.end == ProcResult::kExit) {
        // with -k1 another failure may have stopped the second build before it got there
        bool stopped_early = false;
        int nf2 = 0;
        for (auto& x : r2.spawns) if (x.reap_status != 0) nf2++;
        if (r.plan.k > 0 && nf2 >= r.plan.k) stopped_early = true;
        if (!stopped_early) {
          // K11's precondition is that the statement was out of date *only because an output was missing*
          // (the failed run re-created it and an older record vouches for it). When every output was there
          // before the failed run, whatever made the statement out of date - a newer input, another command
          // line - is still true afterwards, record or no record: that is reported under a class of its own
          bool was_missing = false;
          for (auto& x : r.spawns) if (x.stmt == fid) {
            for (auto& o : x.outs) if (!x.pre_outs.count(o)) was_missing = true;
            // (a failed command may also have clobbered its own depfile, and with it ninja's knowledge of the
            // header that made it out of date - the same family; only statements without discovered dependencies
            // are judged strictly)
            if (x.deps_kind != 0 || x.deps_kind_depfile) was_missing = true;
            // (... provided ninja judged it by a build-log record: a generator statement without one is judged
            // by its output's own time, which the failed run has just renewed - K11's other form)
            for (auto& o : x.outs) if (!r.log_before.last.count(o)) was_missing = true;
          }
          w.Report("C05", was_missing ? "failure_logged" : "failure_not_retried", "statement " + std::to_string(fid) + " failed, yet the next build did not retry it" + (was_missing ? "" : " (all its outputs existed, with a build-log record each, before the failed run: what made it out of date still holds)"));
        }
      }
    }
    if (budget_left) {
      bool always_dirty = false;
      for (const Stmt& s : w.sc.stmts) if (s.alive && s.phony && s.ins.empty() && s.imp_ins.empty() && s.oo_ins.empty()) always_dirty = true;
      if (!always_dirty)
        for (auto& x : r2.spawns) {
          if (failed.count(x.stmt)) continue;
          bool dep = false;
          for (int q : x.closure) if (failed.count(q)) dep = true;
          if (!dep)
            w.Report("C05", "missing_command", "with failures left in the -k budget the build stopped without running statement " + std::to_string(x.stmt) + ", which depends on no failed command (the next build ran it)");
        }
    }
  }

  // Kill / torn write / failing syscall: the position is chosen from a
  // fault-free probe of the same invocation in a forked world.
  void PlanProcessFaults(InvPlan& p) {
    bool want_crash = Pm(prof.pm_crash), want_torn = Pm(prof.pm_torn), want_io = Pm(prof.pm_io_error);
    if (!want_crash && !want_torn && !want_io) return;
    size_t mark = tape.Mark(p.stream);
    World f = w.Fork();
    f.label = "probe";
    RunStats scratch;
    std::vector<Violation> vs;
    f.viol = &vs;
    f.stats = &scratch;
    InvPlan pp = p;
    pp.record_sys = true;
    InvRecord pr = f.RunInvocation(pp);
    tape.Rewind(p.stream, mark);
    const auto& kinds = pr.res.sys_kinds;
    if (kinds.empty()) return;
    auto pick = [&](const char* set) -> int64_t {
      std::vector<int64_t> c;
      for (auto& kv : kinds) if (!set || strchr(set, kv.second)) c.push_back(kv.first);
      if (c.empty()) return -1;
      return c[H((uint32_t)c.size())];
    };
    if (want_torn) {
      int64_t k = pick("w");
      if (k >= 0) { p.fp.torn_at = k; p.fp.torn_keep = H(1 << 20); }
    } else if (want_crash) {
      // half of the kills land in the persistence steps (log writes, unlink, rename, truncate)
      p.fp.crash_at = H(2) ? pick("wnutcO") : pick(nullptr);
      if (p.fp.crash_at < 0) p.fp.crash_at = pick(nullptr);
    }
    if (want_io) {
      // (for a dry run only calls of the planning/starting phase: a log that
      // cannot be read is discarded by design, with or without -n)
      int64_t k = pick(p.dry ? "smuO" : "sOmuntPSwrh");
      if (k >= 0) p.fp.io_errors[k] = 5;
    }
    p.fp.orphans_finish = H(2) == 1;
    if (p.fp.crash_at >= 0 || p.fp.torn_at >= 0) {
      // C07 assumes commands replace their outputs atomically when the whole
      // tree is killed: no half-written outputs in an invocation that is killed
      for (auto& f : p.fail) f.second.second = 0;
      if (p.on_signal % 100 == 1) p.on_signal -= 1;
    }
  }

  // Half of the interrupts of the C07 profile are addressed by syscall index instead of by
  // time: in simulated time ninja sits in ppoll almost always, and a signal that arrives while
  // it is busy (starting commands, recording results) takes another path through its code.
  void PlanSignalAtSyscall(InvPlan& p) {
    if (!prof.signal_at_syscall || p.on_signal < 100 || !p.fp.signals.empty() || p.fp.crash_at >= 0 || p.fp.torn_at >= 0) return;
    if (H(2) != 0) return;
    size_t mark = tape.Mark(p.stream);
    World f = w.Fork();
    f.label = "probe";
    RunStats scratch;
    std::vector<Violation> vs;
    f.viol = &vs;
    f.stats = &scratch;
    InvPlan pp = p;
    pp.record_sys = true;
    pp.on_signal = p.on_signal % 100;   // the probe itself is not interrupted
    InvRecord pr = f.RunInvocation(pp);
    tape.Rewind(p.stream, mark);
    const auto& kinds = pr.res.sys_kinds;
    int64_t first_spawn = -1, last = -1;
    for (auto& kv : kinds) { if (kv.second == 'S' && first_spawn < 0) first_spawn = kv.first; last = kv.first; }
    if (first_spawn < 0) return;
    std::vector<int64_t> c;
    for (auto& kv : kinds) if (kv.first > first_spawn && kv.second != 'L') c.push_back(kv.first);
    if (c.empty()) return;
    int64_t at = c[H((uint32_t)c.size())];
    p.fp.signals.emplace_back(at, p.on_signal / 100);
    p.on_signal = p.on_signal % 100;
    rr.stats.n["interrupt_at_busy_syscall"]++;
  }

  // C07: after an interrupted or killed build the next one must succeed, be
  // clean-equal, and redo what was not durably recorded.
  void CheckRecovery(const InvRecord& r) {
    bool crashed = r.res.end == ProcResult::kCrashed;
    bool intr = r.interrupted && (r.res.out.find("interrupted by user") != std::string::npos || r.res.err.find("interrupted by user") != std::string::npos);
    if (!crashed && !intr) return;
    if (r.plan.dry || !r.plan.tool.empty() || r.external_edit) return;
    for (auto& kv : r.res.fired) if (kv.first.compare(0, 9, "io_error_") == 0) return;
    // "what the next invocation trusts": a statement with deps = gcc/msvc that the killed ninja had put on
    // record as done (a new build-log entry reached the disk) must have the dependencies of that very run in
    // the deps log - the entry is what makes the next build skip the command and use them
    if (crashed && !(w.sc.features & F_HOSTILE_NAMES) && !r.log_torn_tail_before && !r.plan.garbage_child_output) {
      for (auto& x : r.spawns) {
        if (x.deps_kind < 2 || x.reap_status != 0 || !x.reap_seq || x.outs.empty() || r.epochs > 1) continue;
        if (x.stmt >= (int)w.sc.stmts.size() || !w.sc.stmts[x.stmt].alive || w.sc.stmts[x.stmt].deps_kind != x.deps_kind) continue;
        auto a = r.log_after.last.find(x.outs[0]), b = r.log_before.last.find(x.outs[0]);
        if (a == r.log_after.last.end()) continue;
        bool fresh = b == r.log_before.last.end() || b->second.start != a->second.start || b->second.end != a->second.end || b->second.mtime != a->second.mtime || b->second.hash != a->second.hash;
        if (!fresh) continue;
        // (only the last run of the statement in this invocation counts)
        bool later = false;
        for (auto& y : r.spawns) if (y.stmt == x.stmt && y.seq > x.seq) later = true;
        if (later) continue;
        rr.stats.n["killed_recorded_deps_checked"]++;
        std::set<std::string> want(x.reported_deps.begin(), x.reported_deps.end());
        auto rec = r.deps_after.last.find(x.outs[0]);
        std::set<std::string> have;
        if (rec != r.deps_after.last.end()) have.insert(rec->second.deps.begin(), rec->second.deps.end());
        if (rec == r.deps_after.last.end() || have != want)
          w.Report("C07", "recorded_without_deps", "the killed ninja left a build-log entry for " + x.outs[0] + " (statement " + std::to_string(x.stmt) + " is on record as done) but the deps log does not hold the dependencies that run reported" + (rec == r.deps_after.last.end() ? " (no record at all)" : " (an older record)"));
      }
    }
    World f = w.Fork();
    f.label = "recovery";
    InvPlan p;
    p.stream = ST_FORK0 + fork_index++;
    p.j = 1 + (int)tape.Choice(p.stream, 4);
    p.k = 0;
    InvRecord r2 = f.RunInvocation(p);
    rr.stats.n["recovery_builds"]++;
    Note("  [recovery build]" + ResultText(r2));
    if (getenv("SIM_SHOW_OUTPUT")) Note("  stdout: " + r2.res.out + "\n  stderr: " + r2.res.err);
    rr.stats.nontrivial["C07"] = true;
    if (!r2.ok()) {
      bool regen_hit = false;
      for (auto& x : r.spawns) if (w.sc.stmts[x.stmt].regen && (x.killed || !x.reap_seq)) regen_hit = true;
      // (the generator may declare a manifest that build.ninja includes as a further output: the same clean-up deletes it)
      std::string manifest_removed;
      for (const char* mf : {"build.ninja", "sub.ninja"})
        for (const Ev& e : r.res.trace) if (e.kind == Ev::kFsRemove && e.s == std::string("/w/") + mf && r2.res.err.find(std::string("loading '") + mf + "'") != std::string::npos) manifest_removed = mf;
      if (regen_hit && r.interrupted && !manifest_removed.empty()) {
        w.Report("C07", "regen_manifest_deleted", "the interrupted ninja deleted " + manifest_removed + ", which its manifest generator had just rewritten; the next invocation cannot start: " + r2.res.err.substr(0, 120));
        return;
      }
      w.Report("C07", "recovery_failed", "the build after " + std::string(crashed ? "a killed" : "an interrupted") + " ninja exited " + std::to_string(r2.res.exit_code) + " " + r2.res.end_detail + ": " + r2.res.err.substr(0, 200) + r2.res.out.substr(0, 200));
      return;
    }
    // only the documented recovery messages may appear
    std::string e = r2.res.err;
    size_t pos = 0;
    while ((pos = e.find("ninja: ", pos)) != std::string::npos) {
      size_t nl = e.find('\n', pos);
      std::string line = e.substr(pos, nl == std::string::npos ? std::string::npos : nl - pos);
      pos += 7;
      if (line.find("ninja: warning: premature end of file; recovering") == 0) continue;
      if (line.find("names itself as an input; ignoring") != std::string::npos) continue;   // the manifest's own oddity, every time
      if (line.find("starting over") != std::string::npos) continue;
      if (line.find("ninja explain:") == 0) continue;
      if (line.find("ninja: error") == 0 || line.find("ninja: warning") == 0 || line.find("ninja: fatal") == 0)
        w.Report("C07", "recovery_failed", "the build after a killed/interrupted ninja printed: " + line);
    }
    f.viol = w.viol;
    f.CheckContent(r2, "C07");
    // redone rather than trusted
    std::set<int> ran2;
    for (auto& x : r2.spawns) ran2.insert(x.stmt);
    std::set<int> needed = f.Closure(f.EffectiveTargets(p), true);
    for (auto& x : r.spawns) {
      const Stmt& s = w.sc.stmts[x.stmt];
      if (s.generator || s.regen || r.epochs > 1 || !needed.count(x.stmt)) continue;
      // behind a torn tail left by an earlier crash a complete record is merged
      // with the fragment; whether it counts is C08's business, not this check's
      if (r.log_torn_tail_before) continue;
      bool recorded = true;
      for (auto& o : x.outs) {
        auto a = r.log_after.last.find(o), b = r.log_before.last.find(o);
        if (a == r.log_after.last.end()) { recorded = false; break; }
        if (b != r.log_before.last.end() && b->second.mtime == a->second.mtime && b->second.hash == a->second.hash && b->second.end == a->second.end && b->second.start == a->second.start) { recorded = false; break; }
      }
      if ((s.deps_kind == 2 || s.deps_kind == 3) && recorded) {
        auto a = r.deps_after.last.find(x.outs[0]), b = r.deps_before.last.find(x.outs[0]);
        if (a == r.deps_after.last.end()) recorded = false;
        else if (b != r.deps_before.last.end() && b->second.mtime == a->second.mtime && b->second.deps == a->second.deps) {
          // an unchanged deps record is not written again: only missing counts
        }
      }
      // "the tree is identical to a clean build": a clean build leaves no response file of a command
      // that succeeded. A statement the stopped ninja had put on record as done, whose response file
      // is still there after the recovery build succeeded, keeps it for good (nothing will run it again)
      if (s.rsp && recorded && !r.plan.keeprsp && !ran2.count(x.stmt) && f.k.Exists(s.rsp_path)) {
        w.Report("C07", "leftover_rspfile", "statement " + std::to_string(x.stmt) + " is on record as done, but the " + (crashed ? "killed" : "interrupted") + " ninja left its response file " + s.rsp_path + " behind and the next build, which succeeded, has no reason to touch it again");
        continue;
      }
      if (s.rsp && recorded) rr.stats.n["recorded_rsp_statement_checked"]++;
      // K11 pattern: the statement was out of date only because an output was
      // missing; the unrecorded run re-created it and the old record still matches
      bool was_missing = false, old_record_matches = true;
      for (auto& o : x.outs) {
        if (!x.pre_outs.count(o)) was_missing = true;
        auto b = r.log_before.last.find(o);
        if (b == r.log_before.last.end() || b->second.hash != NinjaCommandHash(w.sc.CommandLine(s) + (w.sc.RspContent(s).empty() ? "" : ";rspfile=" + w.sc.RspContent(s)))) old_record_matches = false;
      }
      if (!recorded && !ran2.count(x.stmt) && was_missing && old_record_matches) {
        w.Report("C07", "trusted_recreated_output", "statement " + std::to_string(x.stmt) + " was out of date only because an output was missing; the " + (crashed ? "killed" : "interrupted") + " ninja's command re-created it without a log record and the next build trusted it");
        continue;
      }
      // (whether an older, still adequate record justifies trusting the outputs
      // is the dirtiness question itself; wrongly trusted *content* is caught by
      // the clean-build comparison above)
    }
  }

  // Second world of C10: what the first world had discovered so far is written
  // into the manifest as implicit inputs, and nothing is discovered.
  void ApplyDeclaredDeps(const std::map<int, std::vector<std::string>>& known) {
    for (Stmt& s : w.sc.stmts) {
      if (s.deps_kind == 0) continue;
      s.deps_kind = 0;
      s.depfile.clear();
    }
    for (Stmt& s : w.sc.stmts) {
      if (!s.alive) continue;
      s.extra_imp.clear();
      auto k = known.find(s.id);
      if (k == known.end()) continue;
      for (auto& h : k->second) {
        if (std::find(s.ins.begin(), s.ins.end(), h) != s.ins.end() || std::find(s.imp_ins.begin(), s.imp_ins.end(), h) != s.imp_ins.end()) continue;
        s.extra_imp.push_back(h);
      }
    }
    w.WriteManifest();
  }
  std::map<int, std::set<std::string>> twin_added;

  // Second world of C11: the dyndep information is written into the manifest.
  void ApplyInlinedDyndeps() {
    for (Stmt& s : w.sc.stmts) {
      if (s.dyndep.empty()) continue;
      const DyndepEntry* e = w.sc.DyndepFor(s.id);
      if (e) {
        for (auto& p : e->imp_ins) if (std::find(s.ins.begin(), s.ins.end(), p) == s.ins.end() && std::find(s.imp_ins.begin(), s.imp_ins.end(), p) == s.imp_ins.end()) s.imp_ins.push_back(p);
        for (auto& p : e->imp_outs) s.imp_outs.push_back(p);
        if (e->restat) s.restat = true;
      }
      s.dyndep.clear();
    }
    // the files stay, with the same text (their producers still run); nobody is bound to them any more
    for (auto& dd : w.sc.dyndeps) dd.detached = true;
    w.WriteManifest();
  }

  void TwinBeforeBuild() {
    if (twin_role == 2 && prof.twin_deps && build_no < (int)twin->builds.size()) ApplyDeclaredDeps(twin->builds[build_no].known_hidden);
  }
  void TwinAfterBuild(const InvRecord& r) {
    if (twin_role == 0) return;
    std::set<int> ran;
    for (auto& x : r.spawns) ran.insert(x.stmt);
    bool comparable = r.ok() && r.quiet() && !r.plan.dry;
    std::map<std::string, std::string> contents;
    for (const Stmt& s : w.sc.stmts) if (s.alive && !s.phony) for (auto& o : s.outs) { std::string c; if (w.k.ReadFile(o, &c)) contents[o] = c; }
    if (twin_role == 1) {
      TwinBuild b;
      b.comparable = comparable;
      b.plain = r.quiet() && !r.plan.dry && r.res.end == ProcResult::kExit;
      b.exit_code = r.res.exit_code;
      b.last_words = (r.res.err + r.res.out).substr(0, 200);
      b.ran = ran;
      b.known_hidden = known_before;
      b.contents = contents;
      for (int id : ran) {
        const Stmt& s = w.sc.stmts[id];
        const DyndepEntry* e = w.sc.DyndepFor(id);
        const DyndepFile* dd = s.dyndep.empty() ? nullptr : w.sc.FindDyndep(s.dyndep);
        // pending at scan time: the producer ran, or something it depends on did
        // (then it was dirty at scan time even if a restat upstream pruned it later)
        bool producer_dirty = false;
        if (dd && dd->producer >= 0) {
          if (ran.count(dd->producer)) producer_dirty = true;
          for (int q : w.StmtClosure(dd->producer)) if (ran.count(q)) producer_dirty = true;
        }
        if (e && e->restat && producer_dirty) b.pending_restat.insert(id);
      }
      twin->builds.push_back(b);
    } else if (build_no < (int)twin->builds.size()) {
      const TwinBuild& b = twin->builds[build_no];
      const char* prop = prof.twin_deps ? "C10" : "C11";
      // one variant builds, the other gives up (no command fails and no fault is injected in these profiles)
      if (b.plain && r.quiet() && !r.plan.dry && r.res.end == ProcResult::kExit && (b.exit_code == 0) != (r.res.exit_code == 0) && prof.pm_cmd_fail == 0)
        w.Report(prop, "twin_divergence", "build " + std::to_string(build_no) + ": the " + (prof.twin_deps ? "discovered-dependency" : "dyndep") + " variant exited " + std::to_string(b.exit_code) + " (" + b.last_words.substr(0, 120) + ") but the variant with the same information written in the manifest exited " + std::to_string(r.res.exit_code));
      if (b.comparable && comparable) {
        rr.stats.n["twin_builds_compared"]++;
        bool only_pending_restat = !b.pending_restat.empty();
        for (int x : b.ran) if (!ran.count(x) && !b.pending_restat.count(x)) only_pending_restat = false;
        for (int x : ran) if (!b.ran.count(x)) only_pending_restat = false;
        if (b.ran != ran && only_pending_restat && prof.twin_dyndep) {
          std::string a;
          for (int x : b.ran) if (!ran.count(x)) a += std::to_string(x) + " ";
          w.Report(prop, "twin_divergence_pending_restat", "build " + std::to_string(build_no) + ": statement(s) " + a + "re-ran in the dyndep variant only: their restat attribute comes from a dyndep file that was pending at scan time because its producer had to run");
        } else if (b.ran != ran) {
          std::string a, c;
          for (int x : b.ran) a += std::to_string(x) + " ";
          for (int x : ran) c += std::to_string(x) + " ";
          w.Report(prop, "twin_divergence", std::string("build ") + std::to_string(build_no) + ": the " + (prof.twin_deps ? "discovered-dependency" : "dyndep") + " variant ran statements [" + a + "] but the variant with the same information written in the manifest ran [" + c + "]");
        }
        for (auto& kv : contents) {
          auto o = b.contents.find(kv.first);
          if (o != b.contents.end() && o->second != kv.second)
            w.Report(prop, "twin_divergence", "build " + std::to_string(build_no) + ": '" + kv.first + "' differs between the two variants");
        }
        if (!b.ran.empty() && prof.twin_deps) { bool disc = false; for (auto& kh : b.known_hidden) if (!kh.second.empty()) disc = true; if (disc) rr.stats.nontrivial["C10"] = true; }
        if (!b.ran.empty() && prof.twin_dyndep) rr.stats.nontrivial["C11"] = true;
      }
    }
    build_no++;
  }
  std::map<int, std::vector<std::string>> known_before;

  // C04 small-graph mode: which completion order did this schedule produce, and
  // how many are possible at all (linear extensions of the dependency order)?
  void RecordSmallGraph(const InvRecord& r) {
    std::vector<int> cmds;
    for (const Stmt& s : w.sc.stmts) if (s.alive && !s.phony) cmds.push_back(s.id);
    int n = (int)cmds.size();
    if (n == 0 || n > 8 || (int)r.spawns.size() != n) return;
    std::vector<std::pair<uint64_t, int>> order;
    for (auto& x : r.spawns) order.emplace_back(x.reap_seq, x.stmt);
    std::sort(order.begin(), order.end());
    for (auto& o : order) rr.stats.small_order += std::to_string(o.second) + ",";
    // predecessor masks
    std::vector<int> pred(n, 0);
    for (int i = 0; i < n; i++) { std::set<int> cl = w.StmtClosure(cmds[i]); for (int j = 0; j < n; j++) if (cl.count(cmds[j])) pred[i] |= 1 << j; }
    std::vector<long> dp(1 << n, 0);
    dp[0] = 1;
    for (int m = 0; m < (1 << n); m++) if (dp[m]) for (int i = 0; i < n; i++) if (!(m & (1 << i)) && (pred[i] & m) == pred[i]) dp[m | (1 << i)] += dp[m];
    rr.stats.small_linext = dp[(1 << n) - 1];
    char b[32]; snprintf(b, sizeof b, "%016llx", (unsigned long long)Hash64(w.sc.ManifestText()));
    rr.stats.small_shape = b;
  }

  // C07 thorough: one build of the history is killed at *every* syscall index
  // (and torn inside every file write), each time in a forked world followed by a
  // recovery build.
  bool enumerated = false;
  void EnumerateKills(const InvPlan& base) {
    enumerated = true;
    size_t mark = tape.Mark(base.stream);
    World probe = w.Fork();
    probe.label = "probe";
    RunStats scratch; std::vector<Violation> vs;
    probe.viol = &vs; probe.stats = &scratch;
    InvPlan pp = base; pp.record_sys = true;
    InvRecord pr = probe.RunInvocation(pp);
    tape.Rewind(base.stream, mark);
    if (pr.res.end != ProcResult::kExit || pr.spawns.empty()) return;
    auto kinds = pr.res.sys_kinds;
    if (kinds.size() > 600) return;
    Note("enumerate kills: " + std::to_string(kinds.size()) + " syscalls");
    for (auto& kv : kinds) {
      for (int variant = 0; variant < (kv.second == 'w' ? 3 : 1); variant++) {
        World f = w.Fork();
        f.label = "kill@" + std::to_string(kv.first);
        InvPlan p = base;
        p.fail.clear(); p.on_signal = 0; p.editor = false;
        if (variant == 0) p.fp.crash_at = kv.first; else { p.fp.torn_at = kv.first; p.fp.torn_keep = variant == 1 ? 1 : 0x7fffffff; }
        p.fp.orphans_finish = (kv.first + variant) % 2 == 0;
        size_t m2 = tape.Mark(base.stream);
        InvRecord r = f.RunInvocation(p);
        tape.Rewind(base.stream, m2);
        rr.stats.n["enumerated_kills"]++;
        if (r.res.end != ProcResult::kCrashed) continue;
        // recovery in the same forked world
        World saved = w;   // CheckRecovery forks from `w`
        w = f;
        w.viol = &rr.violations; w.stats = &rr.stats;
        CheckRecovery(r);
        w = saved;
      }
    }
  }

  void DoBuild() {
    // (K15 can delete the manifest; everything after that only repeats it)
    if (ManifestGone()) { dead = true; return; }
    InvPlan p = MakeBuildPlan();
    if (prof.enumerate_faults && !enumerated && builds_done > 0 && H(2) == 0) EnumerateKills(p);
    PlanProcessFaults(p);
    PlanSignalAtSyscall(p);
    TwinBeforeBuild();
    known_before = w.reported_hidden;
    Note(PlanText(p));
    InvRecord r = w.RunInvocation(p);
    Note(ResultText(r));
    if (getenv("SIM_SHOW_OUTPUT")) Note("  stdout: " + r.res.out + "\n  stderr: " + r.res.err);
    if (getenv("SIM_TRACE")) {
      std::string t;
      for (const Ev& e : r.res.trace) {
        if (e.kind == Ev::kSpawn) t += " spawn(" + std::to_string(e.b) + ")";
        else if (e.kind == Ev::kChildExit) t += " exit(pid" + std::to_string(e.a) + ")";
        else if (e.kind == Ev::kReap) { int st = -1; for (auto& x : r.spawns) if (x.pid == e.a) st = x.stmt; t += " reap(" + std::to_string(st) + ")"; }
        else if (e.kind == Ev::kStdout) t += " out[" + e.s.substr(0, 24) + "]";
        else if (e.kind == Ev::kFsRemove) t += " rm(" + e.s + ")";
      }
      Note("  trace:" + t);
    }
    if (getenv("SIM_DUMP_LOG")) { for (auto& kv : r.log_before.last) { auto o = r.log_after.last.find(kv.first); Note("   before " + kv.first + " h=" + std::to_string(kv.second.hash) + " m=" + std::to_string(kv.second.mtime) + " after " + (o == r.log_after.last.end() ? "absent" : std::to_string(o->second.hash) + " m=" + std::to_string(o->second.mtime))); } }
    if (getenv("SIM_DUMP_LOG")) { std::string lg; w.k.ReadFile(w.sc.LogDir() + ".ninja_log", &lg); Note("  .ninja_log:\n" + lg); }
    w.CheckAll(r);
    if (prof.small_graph && r.ok()) RecordSmallGraph(r);
    {
      int ncmd = 0;
      for (const Stmt& s : w.sc.stmts) if (s.alive && !s.phony) ncmd++;
      // incremental: something was rebuilt and something was left alone
      if (r.ok() && builds_done > 0 && !r.spawns.empty() && (int)r.spawns.size() < ncmd) {
        rr.stats.nontrivial["C01"] = true;
        rr.stats.nontrivial["C03"] = true;
      }
      builds_done++;
    }
    if (rr.stats.n["ordered_pairs"] > 0) rr.stats.nontrivial["C04"] = true;
    if (rr.stats.n["j_full"] + rr.stats.n["pool_full"] + rr.stats.n["tokens_full"] > 0) rr.stats.nontrivial["C06"] = true;
    if (prof.check_convergence) CheckConvergence(r);
    CheckFailureFollowUp(r);
    CheckRecovery(r);
    TwinAfterBuild(r);
  }

  // ---------------------------------------------------------------- tools (C18, C19)
  static bool StrictJson(const std::string& s, size_t& i, int depth) {
    auto ws = [&]() { while (i < s.size() && (s[i] == ' ' || s[i] == '\n' || s[i] == '\t' || s[i] == '\r')) i++; };
    ws();
    if (i >= s.size() || depth > 50) return false;
    if (s[i] == '{') {
      i++; ws();
      if (i < s.size() && s[i] == '}') { i++; return true; }
      for (;;) {
        ws();
        if (i >= s.size() || s[i] != '"' || !StrictJson(s, i, depth + 1)) return false;
        ws();
        if (i >= s.size() || s[i] != ':') return false;
        i++;
        if (!StrictJson(s, i, depth + 1)) return false;
        ws();
        if (i < s.size() && s[i] == ',') { i++; continue; }
        if (i < s.size() && s[i] == '}') { i++; return true; }
        return false;
      }
    }
    if (s[i] == '[') {
      i++; ws();
      if (i < s.size() && s[i] == ']') { i++; return true; }
      for (;;) {
        if (!StrictJson(s, i, depth + 1)) return false;
        ws();
        if (i < s.size() && s[i] == ',') { i++; continue; }
        if (i < s.size() && s[i] == ']') { i++; return true; }
        return false;
      }
    }
    if (s[i] == '"') {
      i++;
      while (i < s.size()) {
        unsigned char c = (unsigned char)s[i];
        if (c == '"') { i++; return true; }
        if (c < 0x20) return false;           // control characters must be escaped
        if (c == '\\') {
          i++;
          if (i >= s.size()) return false;
          char e = s[i];
          if (e == 'u') {
            for (int k = 1; k <= 4; k++) if (i + k >= s.size() || !isxdigit((unsigned char)s[i + k])) return false;
            i += 4;
          } else if (!strchr("\"\\/bfnrt", e)) return false;
        }
        i++;
      }
      return false;
    }
    if (s.compare(i, 4, "true") == 0) { i += 4; return true; }
    if (s.compare(i, 5, "false") == 0) { i += 5; return true; }
    if (s.compare(i, 4, "null") == 0) { i += 4; return true; }
    size_t st = i;
    if (s[i] == '-') i++;
    while (i < s.size() && (isdigit((unsigned char)s[i]) || s[i] == '.' || s[i] == 'e' || s[i] == 'E' || s[i] == '+' || s[i] == '-')) i++;
    return i > st;
  }

  struct FsSnap { std::map<std::string, std::pair<uint64_t, int64_t>> files; std::set<std::string> dirs; };
  FsSnap Snap() const {
    FsSnap s;
    for (auto& kv : w.k.fs.nodes) {
      if (kv.second->kind == Inode::kFile) s.files[kv.first] = std::make_pair(Hash64(kv.second->data, 7), kv.second->mtime);
      else if (kv.second->kind == Inode::kDir) s.dirs.insert(kv.first);
    }
    return s;
  }
  static bool IsLogPath(const std::string& p) {
    return p.find(".ninja_log") != std::string::npos || p.find(".ninja_deps") != std::string::npos || p.find(".ninja_lock") != std::string::npos;
  }

  // the world must look the same after a read-only tool or a dry run
  void CheckUntouched(const InvRecord& r, const FsSnap& before, const std::string& what) {
    if (!r.spawns.empty()) w.Report("C19", "tool_mutated_world", what + " started " + std::to_string(r.spawns.size()) + " build commands");
    FsSnap after = Snap();
    // response files are neither sources, outputs nor depfiles: a dry run writes
    // and removes them (reported in the evidence, not a violation)
    std::set<std::string> rsp;
    for (const Stmt& s : w.sc.stmts) if (s.rsp) rsp.insert("/w/" + s.rsp_path);
    for (auto& kv : before.files) if (rsp.count(kv.first) && !after.files.count(kv.first)) rr.stats.n["dry_run_removed_rspfile"]++;
    for (auto& kv : before.files) {
      if (IsLogPath(kv.first) || rsp.count(kv.first)) continue;
      auto a = after.files.find(kv.first);
      if (a == after.files.end()) w.Report("C19", "tool_mutated_world", what + " deleted " + kv.first);
      else if (a->second != kv.second) w.Report("C19", "tool_mutated_world", what + " modified " + kv.first);
    }
    for (auto& kv : after.files)
      if (!before.files.count(kv.first) && !IsLogPath(kv.first) && !rsp.count(kv.first)) w.Report("C19", "tool_mutated_world", what + " created " + kv.first);
    // the logs keep their meaning
    // (a tool that opens the log may recompact it, exactly as the next build would; recompaction drops
    // records of paths no statement of the manifest declares - stale names, garbage from a torn line,
    // outputs only a dyndep file declares - so only declared outputs are compared)
    std::set<std::string> declared;
    for (const Stmt& s : w.sc.stmts) if (s.alive) for (auto& o : s.AllOuts()) declared.insert(o);
    auto same_log = [&](const BuildLogFold& a, const BuildLogFold& b) {
      for (auto& kv : a.last) {
        if (!declared.count(kv.first)) continue;
        auto o = b.last.find(kv.first);
        if (o == b.last.end() || o->second.hash != kv.second.hash || o->second.mtime != kv.second.mtime) return false;
      }
      for (auto& kv : b.last) if (!a.last.count(kv.first)) return false;
      return true;
    };
    if (getenv("SIM_DUMP_LOG")) { for (auto& kv : r.log_before.last) { auto o = r.log_after.last.find(kv.first); Note("   before " + kv.first + " h=" + std::to_string(kv.second.hash) + " m=" + std::to_string(kv.second.mtime) + " after " + (o == r.log_after.last.end() ? "absent" : std::to_string(o->second.hash) + " m=" + std::to_string(o->second.mtime))); } }
    if (getenv("SIM_DUMP_LOG")) { std::string lg; w.k.ReadFile(w.sc.LogDir() + ".ninja_log", &lg); Note("  after " + what + " .ninja_log (" + std::to_string(r.log_before.last.size()) + " -> " + std::to_string(r.log_after.last.size()) + " records, valid " + std::to_string(r.log_after.valid_header) + "):\n" + lg.substr(0, 600)); }
    if (r.log_before.valid_header && !same_log(r.log_before, r.log_after)) w.Report("C19", "tool_mutated_world", what + " changed the meaning of the build log");
    if (r.deps_before.valid_header) {
      bool same = true;
      std::set<std::string> with_deps;   // recompaction drops records of outputs whose statement has no `deps` any more
      for (const Stmt& s : w.sc.stmts) if (s.alive && s.deps_kind >= 2) for (auto& o : s.AllOuts()) with_deps.insert(o);
      for (auto& kv : r.deps_after.last) if (!r.deps_before.last.count(kv.first)) same = false;
      for (auto& kv : r.deps_before.last) { if (!with_deps.count(kv.first)) continue; auto o = r.deps_after.last.find(kv.first); if (o == r.deps_after.last.end() || o->second.mtime != kv.second.mtime || o->second.deps != kv.second.deps) same = false; }
      if (!same) w.Report("C19", "tool_mutated_world", what + " changed the meaning of the deps log");
    }
    rr.stats.n["untouched_checks"]++;
  }

  std::vector<std::string> SomeTargets(int maxn) {
    std::vector<std::string> outs = AllOutputs(), t;
    int n = (int)H((uint32_t)maxn + 1);
    for (int i = 0; i < n && !outs.empty(); i++) {
      std::string x = outs[H((uint32_t)outs.size())];
      bool dyn_named = false;   // (see MakeBuildPlan: a dyndep-declared output that the manifest names as an input)
      for (auto& dd : w.sc.dyndeps) for (auto& e : dd.entries) for (auto& o : e.imp_outs) if (o == x)
        for (const Stmt& q : w.sc.stmts) for (auto* v : {&q.ins, &q.imp_ins, &q.oo_ins}) if (std::find(v->begin(), v->end(), x) != v->end()) dyn_named = true;
      if (dyn_named) continue;
      if (std::find(t.begin(), t.end(), x) == t.end()) t.push_back(x);
    }
    return t;
  }

  // commands printed as "[a/b] cmd" lines or bare lines
  static std::vector<std::string> ListedCommands(const std::string& out, bool with_status) {
    std::vector<std::string> v;
    size_t i = 0;
    while (i < out.size()) {
      size_t nl = out.find('\n', i);
      if (nl == std::string::npos) nl = out.size();
      std::string line = out.substr(i, nl - i);
      i = nl + 1;
      if (with_status) {
        size_t b = line.find("] ");
        if (line.empty() || line[0] != '[' || b == std::string::npos) continue;
        line = line.substr(b + 2);
      }
      if (line.compare(0, 4, "sim ") == 0) v.push_back(line);
    }
    return v;
  }

  void DoDryRun() {
    if (ManifestGone()) { dead = true; return; }
    InvPlan p;
    p.stream = ST_INV0 + inv_index++;
    p.dry = true;
    p.verbose = true;
    p.j = 1 + (int)H(4);
    p.k = 0;
    p.targets = H(2) ? SomeTargets(2) : std::vector<std::string>();
    bool pending_dyndep = false;
    for (auto& d : w.sc.dyndeps) if (d.producer >= 0) pending_dyndep = true;
    PlanProcessFaults(p);   // a failing syscall must not make a dry run touch the tree either
    Note("dry run " + PlanText(p));
    FsSnap before = Snap();
    InvRecord r = w.RunInvocation(p);
    Note(ResultText(r));
    if (getenv("SIM_SHOW_OUTPUT")) Note("  stdout: " + r.res.out + "\n  stderr: " + r.res.err);
    w.CheckTermination(r);
    if (r.res.end != ProcResult::kExit) return;
    CheckUntouched(r, before, "ninja -n");
    if (r.res.exit_code != 0 || pending_dyndep || r.epochs > 1) return;
    // truthful: what -n lists is what a real build of the same targets runs
    bool regen_dirty = false;
    for (const Stmt& s : w.sc.stmts) if (s.alive && s.regen) regen_dirty = true;
    if (regen_dirty) return;   // with a manifest generator a dry run stops after announcing the regeneration
    std::vector<std::string> listed = ListedCommands(r.res.out, true);
    World f = w.Fork();
    f.label = "real-after-dry";
    InvPlan q = p;
    q.dry = false;
    q.stream = ST_FORK0 + fork_index++;
    InvRecord r2 = f.RunInvocation(q);
    if (!r2.ok()) return;
    std::multiset<std::string> a(listed.begin(), listed.end()), b;
    bool any_restat = false;
    for (auto& x : r2.spawns) { b.insert(x.cmd); }
    for (const Stmt& s : w.sc.stmts) { const DyndepEntry* e = w.sc.DyndepFor(s.id); if (s.alive && (s.restat || (e && e->restat))) any_restat = true; }
    for (auto& c : b) if (!a.count(c)) w.Report("C19", "listing_mismatch", "the real build ran '" + c.substr(0, 80) + "' which ninja -n did not list");
    if (!any_restat) for (auto& c : a) if (!b.count(c)) w.Report("C19", "listing_mismatch", "ninja -n listed '" + c.substr(0, 80) + "' which the real build did not run");
    // listed order respects dependencies
    std::map<std::string, int> pos;
    for (size_t i = 0; i < listed.size(); i++) pos[listed[i]] = (int)i;
    for (const Stmt& s : w.sc.stmts) {
      if (!s.alive || s.phony) continue;
      auto me = pos.find(w.sc.CommandLine(s));
      if (me == pos.end()) continue;
      for (int q2 : w.StmtClosure(s.id)) {
        if (w.sc.stmts[q2].phony) continue;
        auto dep = pos.find(w.sc.CommandLine(w.sc.stmts[q2]));
        if (dep != pos.end() && dep->second > me->second)
          w.Report("C19", "listing_mismatch", "ninja -n lists statement " + std::to_string(s.id) + " before its prerequisite " + std::to_string(q2));
      }
    }
    rr.stats.nontrivial["C19"] = rr.stats.nontrivial["C19"] || !listed.empty();
    rr.stats.n["dry_runs_compared"]++;
  }

  void DoReadOnlyTool() {
    if (ManifestGone()) { dead = true; return; }
    static const char* kTools[] = {"commands", "inputs", "multi-inputs", "query", "targets", "rules", "graph", "compdb", "compdb-targets", "deps", "missingdeps"};
    std::string tool = kTools[H(11)];
    InvPlan p;
    p.stream = ST_INV0 + inv_index++;
    p.j = -1;
    p.tool.push_back(tool);
    std::vector<std::string> targets = SomeTargets(2);
    if (tool == "query" || tool == "compdb-targets") { if (targets.empty()) targets = SomeTargets(2); if (targets.empty()) return; }
    if (tool == "targets") { uint32_t m = H(4); if (m == 1) p.tool.push_back("all"); else if (m == 2) { p.tool.push_back("depth"); p.tool.push_back("2"); } else if (m == 3) { p.tool.push_back("rule"); } targets.clear(); }
    if (tool == "rules") { if (H(2)) p.tool.push_back("-d"); targets.clear(); }
    if (tool == "compdb") {
      targets.clear();
      if (H(2)) p.tool.push_back("-x");
      // the form build-system generators use: only the statements of the named rules
      if (H(2)) {
        std::vector<int> cands;
        for (const Stmt& s : w.sc.stmts) if (s.alive && !s.phony) cands.push_back(s.id);
        for (int n = 1 + (int)H(2); n > 0 && !cands.empty(); n--) targets.push_back("r" + std::to_string(cands[H((uint32_t)cands.size())]));
        if (!targets.empty()) rr.stats.n["compdb_by_rule"]++;
      }
    }
    if (tool == "commands" && H(3) == 0) p.tool.push_back("-s");
    for (auto& t : targets) p.tool.push_back(t);
    Note("tool " + tool);
    FsSnap before = Snap();
    InvRecord r = w.RunInvocation(p);
    Note(ResultText(r));
    if (getenv("SIM_SHOW_OUTPUT")) Note("  stdout: " + r.res.out.substr(0, 2000) + "\n  stderr: " + r.res.err);
    w.CheckTermination(r);
    if (r.res.end != ProcResult::kExit) return;
    CheckUntouched(r, before, "ninja -t " + tool);
    rr.stats.n["tool_" + tool]++;
    if (r.res.exit_code != 0) return;
    if (tool == "compdb" || tool == "compdb-targets") {
      size_t i = 0;
      bool ok = StrictJson(r.res.out, i, 0);
      while (ok && i < r.res.out.size() && (r.res.out[i] == '\n' || r.res.out[i] == ' ')) i++;
      if (!ok || i != r.res.out.size())
        w.Report("C19", "invalid_json", "ninja -t " + tool + " printed text that is not valid JSON near byte " + std::to_string(i) + ": " + r.res.out.substr(i > 20 ? i - 20 : 0, 60));
      rr.stats.nontrivial["C19"] = true;
    }
    if (tool == "commands" && std::find(p.tool.begin(), p.tool.end(), "-s") == p.tool.end()) {
      bool pending_dyndep = false;
      for (auto& d : w.sc.dyndeps) if (d.producer >= 0 || true) pending_dyndep = pending_dyndep || !w.sc.dyndeps.empty();
      bool regen = false;
      for (const Stmt& s : w.sc.stmts) if (s.alive && s.regen) regen = true;
      if (pending_dyndep || regen) return;
      // a from-scratch build of the same targets runs exactly these commands
      World f = w.Fork();
      f.label = "scratch-after-commands";
      for (const Stmt& s : f.sc.stmts) if (s.alive) for (auto& o : f.sc.DeclaredOuts(s.id)) f.k.Remove(o);
      f.k.Remove(f.sc.LogDir() + ".ninja_log");
      f.k.Remove(f.sc.LogDir() + ".ninja_deps");
      InvPlan q;
      q.stream = ST_FORK0 + fork_index++;
      q.j = 2; q.k = 0;
      q.targets = targets;
      InvRecord r2 = f.RunInvocation(q);
      if (!r2.ok()) return;
      std::vector<std::string> listed = ListedCommands(r.res.out, false);
      std::multiset<std::string> a(listed.begin(), listed.end()), b;
      // (the manual defines the listing as the commands needed to rebuild the
      // targets; validation targets are built too but are not part of that chain)
      InvPlan tp; tp.targets = targets;
      std::set<int> chain = w.Closure(w.EffectiveTargets(tp), false);
      for (auto& x : r2.spawns) if (chain.count(x.stmt)) b.insert(x.cmd);
      for (auto& c : b) if (!a.count(c)) w.Report("C19", "listing_mismatch", "a from-scratch build ran '" + c.substr(0, 80) + "' which -t commands did not list");
      for (auto& c : a) if (!b.count(c)) w.Report("C19", "listing_mismatch", "-t commands listed '" + c.substr(0, 80) + "' which a from-scratch build did not run");
      rr.stats.n["commands_compared"]++;
      rr.stats.nontrivial["C19"] = true;
    }
  }

  // ---- clean scope model
  void AddEdgeFiles(const Scenario& sc, const Stmt& s, bool dyndep_loaded, std::set<std::string>* scope) {
    for (auto& o : s.outs) scope->insert(o);
    for (auto& o : s.imp_outs) scope->insert(o);
    if (dyndep_loaded) if (const DyndepEntry* e = sc.DyndepFor(s.id)) for (auto& o : e->imp_outs) scope->insert(o);
    if (!s.depfile.empty()) scope->insert(s.depfile);
    if (s.rsp) scope->insert(s.rsp_path);
  }

  void DoClean() {
    if (ManifestGone()) { dead = true; return; }
    InvPlan p;
    p.stream = ST_INV0 + inv_index++;
    p.j = -1;
    uint32_t mode = H(5);   // 0 all, 1 all -g, 2 targets, 3 rules, 4 all
    bool dry = H(5) == 0;
    p.dry = dry;
    p.verbose = H(2) == 1;
    p.tool.push_back("clean");
    std::vector<std::string> targets;
    std::vector<int> rules;
    if (mode == 1) p.tool.push_back("-g");
    if (mode == 2) { targets = SomeTargets(2); if (targets.empty()) mode = 0; for (auto& t : targets) p.tool.push_back(t); }
    if (mode == 3) {
      std::vector<int> cands;
      for (const Stmt& s : w.sc.stmts) if (s.alive && !s.phony && !s.regen) cands.push_back(s.id);
      if (cands.empty()) mode = 0;
      else { p.tool.push_back("-r"); rules.push_back(cands[H((uint32_t)cands.size())]); p.tool.push_back("r" + std::to_string(rules[0])); }
      // `phony` is a rule name like any other on the command line; nothing an alias names is ninja's to delete
      bool any_alias = false;
      for (const Stmt& s : w.sc.stmts) if (s.alive && s.phony) any_alias = true;
      if (mode == 3 && any_alias && H(3) == 0) { rules.clear(); p.tool.back() = "phony"; rr.stats.n["clean_rule_phony"]++; }
    }
    std::string desc = "clean";
    for (auto& t : p.tool) desc += " " + t;
    Note("tool " + desc + (dry ? " (-n)" : ""));
    // which dyndep files can be loaded (they exist)
    // (loadable: it exists and holds valid dyndep text - a failed producer may have left garbage)
    auto dd_loaded = [&](const Stmt& s) {
      if (s.dyndep.empty()) return false;
      const DyndepFile* dd = w.sc.FindDyndep(s.dyndep);
      std::string c;
      return dd && w.k.ReadFile(s.dyndep, &c) && c == w.sc.DyndepText(*dd);
    };
    std::set<std::string> scope, generator_outs, phony_names;
    for (const Stmt& s : w.sc.stmts) {
      if (!s.alive) continue;
      if (s.phony) { for (auto& o : s.outs) phony_names.insert(o); for (auto& o : s.imp_outs) phony_names.insert(o); continue; }
      if (s.generator) { std::set<std::string> g; AddEdgeFiles(w.sc, s, dd_loaded(s), &g); generator_outs.insert(g.begin(), g.end()); }
    }
    // sometimes a file of the user's happens to carry an alias' name while the tool runs
    // (`build tags: phony`, and a file called tags): it is theirs
    std::vector<std::string> planted;
    if (!phony_names.empty() && H(3) == 0)
      for (auto& nm : phony_names) if (!w.k.Exists(nm) && planted.size() < 2) { w.k.WriteFile(nm, "the user's own\n", true); planted.push_back(nm); }
    if (!planted.empty()) Note("  (files named like aliases exist: " + std::to_string(planted.size()) + ")");
    if (mode == 0 || mode == 1 || mode == 4) {
      for (const Stmt& s : w.sc.stmts) {
        if (!s.alive || s.phony) continue;
        if (s.generator && mode != 1) continue;
        AddEdgeFiles(w.sc, s, dd_loaded(s), &scope);
      }
    } else if (mode == 2) {
      std::set<int> seen;
      std::vector<std::string> todo = targets;
      while (!todo.empty()) {
        std::string t = todo.back(); todo.pop_back();
        int pr = w.sc.Producer(t);
        if (pr < 0 || !seen.insert(pr).second) continue;
        const Stmt& s = w.sc.stmts[pr];
        // a dyndep-added output is only known once the dyndep file is loaded
        if (!s.phony) AddEdgeFiles(w.sc, s, dd_loaded(s), &scope);
        for (auto* v : {&s.ins, &s.imp_ins, &s.oo_ins}) for (auto& x : *v) todo.push_back(x);
        if (dd_loaded(s)) if (const DyndepEntry* e = w.sc.DyndepFor(pr)) for (auto& x : e->imp_ins) todo.push_back(x);
      }
    } else {
      for (int id : rules) AddEdgeFiles(w.sc, w.sc.stmts[id], dd_loaded(w.sc.stmts[id]), &scope);
    }
    std::set<std::string> existing_in_scope;
    for (auto& pth : scope) if (w.k.Exists(pth)) existing_in_scope.insert(pth);
    InvRecord r = w.RunInvocation(p);
    Note(ResultText(r));
    if (getenv("SIM_SHOW_OUTPUT")) Note("  stdout: " + r.res.out.substr(0, 2000) + "\n  stderr: " + r.res.err);
    for (auto& nm : planted) w.k.Remove(nm);
    w.CheckTermination(r);
    if (r.res.end != ProcResult::kExit) return;
    if (!r.spawns.empty()) w.Report("C18", "clean_out_of_scope", "ninja -t clean started build commands");
    std::set<std::string> removed;
    // (replacing a log by its recompacted copy unlinks it first: log maintenance, not cleaning)
    for (const Ev& e : r.res.trace) if (e.kind == Ev::kFsRemove && !IsLogPath(e.s)) removed.insert(e.s.compare(0, 3, "/w/") == 0 ? e.s.substr(3) : e.s);
    bool untargeted = mode == 0 || mode == 1 || mode == 4;
    for (auto& pth : removed) {
      if (w.sc.IsSource(pth) || ((pth == "build.ninja" || pth == "sub.ninja") && w.sc.Producer(pth) < 0)) { w.Report("C18", "clean_out_of_scope", desc + " deleted the source file " + pth); continue; }
      if (phony_names.count(pth)) { w.Report("C18", "clean_out_of_scope", desc + " deleted the phony name " + pth); continue; }
      if (generator_outs.count(pth) && mode != 1) {
        if (untargeted) w.Report("C18", "clean_out_of_scope", desc + " deleted the generator output " + pth + " without -g");
        else w.Report("C18", "clean_generator_output_by_target_or_rule", desc + " deleted the generator output " + pth + " without -g");
        continue;
      }
      if (!scope.count(pth)) w.Report("C18", "clean_out_of_scope", desc + " deleted " + pth + " which is not an output, depfile or rspfile of a statement in its scope");
    }
    if (dry && !removed.empty()) w.Report("C18", "clean_out_of_scope", "ninja -n -t clean removed files");
    if (!dry && r.res.exit_code == 0) {
      for (auto& pth : existing_in_scope) {
        if (generator_outs.count(pth) && mode != 1 && !untargeted) continue;   // K9 either way
        if (w.k.Exists(pth)) w.Report("C18", "clean_incomplete", desc + " left " + pth + " in place although it is in scope");
      }
    }
    if (dry && r.res.exit_code == 0) {   // (a rule defined inside a subninja scope is not a name -r can look up)
      for (auto& pth : existing_in_scope) {
        if (generator_outs.count(pth) && mode != 1 && !untargeted) continue;
        if (r.res.out.find("Remove " + pth) == std::string::npos) w.Report("C18", "clean_incomplete", "ninja -n -t clean did not report " + pth);
      }
    }
    bool outside = false;
    for (auto& kv : w.k.fs.nodes) if (kv.second->kind == Inode::kFile && kv.first.size() > 3 && !scope.count(kv.first.substr(3))) outside = true;
    if (!existing_in_scope.empty() && outside) rr.stats.nontrivial["C18"] = true;
    rr.stats.n["clean_runs"]++;
  }

  void DoCleanDead() {
    if (ManifestGone()) { dead = true; return; }
    InvPlan p;
    p.stream = ST_INV0 + inv_index++;
    p.j = -1;
    p.dry = H(5) == 0;
    p.tool.push_back("cleandead");
    Note(std::string("tool cleandead") + (p.dry ? " (-n)" : ""));
    // every path the graph mentions
    std::set<std::string> in_graph;
    for (const Stmt& s : w.sc.stmts) {
      if (!s.alive) continue;
      for (auto* v : {&s.outs, &s.imp_outs, &s.ins, &s.imp_ins, &s.oo_ins, &s.validations}) for (auto& x : *v) in_graph.insert(x);
      bool loadable = false;
      if (!s.dyndep.empty()) { const DyndepFile* dd = w.sc.FindDyndep(s.dyndep); std::string c; loadable = dd && w.k.ReadFile(s.dyndep, &c) && c == w.sc.DyndepText(*dd); }
      if (loadable) if (const DyndepEntry* e = w.sc.DyndepFor(s.id)) { for (auto& x : e->imp_outs) in_graph.insert(x); for (auto& x : e->imp_ins) in_graph.insert(x); }
    }
    std::string lb;
    bool hb = w.k.ReadFile(w.sc.LogDir() + ".ninja_log", &lb);
    BuildLogFold fold = FoldBuildLog(lb, hb);
    std::set<std::string> scope, existing;
    for (auto& kv : fold.last) if (!in_graph.count(kv.first)) scope.insert(kv.first);
    for (auto& x : scope) if (w.k.Exists(x)) existing.insert(x);
    // (reach: a file the log knows that is a checked-in file by now, and one only aliases name)
    {
      std::set<std::string> read_by_cmd;
      for (const Stmt& c : w.sc.stmts) if (c.alive && !c.phony) for (auto* v : {&c.ins, &c.imp_ins, &c.oo_ins}) for (auto& x : *v) read_by_cmd.insert(x);
      for (auto& kv : fold.last) if (w.sc.IsSource(kv.first) && in_graph.count(kv.first) && w.k.Exists(kv.first)) {
        rr.stats.n["cleandead_logged_file_now_source"]++;
        if (!read_by_cmd.count(kv.first)) rr.stats.n["cleandead_logged_file_only_aliased"]++;
      }
    }
    InvRecord r = w.RunInvocation(p);
    Note(ResultText(r));
    if (getenv("SIM_SHOW_OUTPUT")) Note("  stdout: " + r.res.out.substr(0, 2000) + "\n  stderr: " + r.res.err);
    w.CheckTermination(r);
    if (r.res.end != ProcResult::kExit) return;
    std::set<std::string> removed;
    // (replacing a log by its recompacted copy unlinks it first: log maintenance, not cleaning)
    for (const Ev& e : r.res.trace) if (e.kind == Ev::kFsRemove && !IsLogPath(e.s)) removed.insert(e.s.compare(0, 3, "/w/") == 0 ? e.s.substr(3) : e.s);
    for (auto& pth : removed) {
      // (a once-generated, now checked-in file that the graph has stopped naming altogether is, to
      // ninja, exactly what cleandead is for: the log knows it and nothing mentions it)
      if ((w.sc.IsSource(pth) && !scope.count(pth)) || pth == "build.ninja") w.Report("C18", "clean_out_of_scope", "cleandead deleted the source file " + pth);
      else if (!scope.count(pth)) w.Report("C18", "clean_out_of_scope", "cleandead deleted " + pth + " which is still part of the graph or was never recorded in the build log");
    }
    if (p.dry && !removed.empty()) w.Report("C18", "clean_out_of_scope", "ninja -n -t cleandead removed files");
    if (!p.dry && r.res.exit_code == 0) for (auto& x : existing) if (w.k.Exists(x)) w.Report("C18", "clean_incomplete", "cleandead left the dead file " + x + " in place");
    if (!existing.empty()) { rr.stats.nontrivial["C18"] = true; rr.stats.n["cleandead_with_dead_files"]++; }
    rr.stats.n["cleandead_runs"]++;
  }

  // remove or rename a leaf statement so that the build log gets dead entries
  void DoManifestEdit() {
    std::set<std::string> used;
    for (const Stmt& s : w.sc.stmts) {
      if (!s.alive) continue;
      for (auto* v : {&s.ins, &s.imp_ins, &s.oo_ins, &s.validations, &s.hidden}) for (auto& x : *v) used.insert(x);
    }
    for (auto& d : w.sc.dyndeps) for (auto& e : d.entries) for (auto& x : e.imp_ins) used.insert(x);
    for (auto& x : w.sc.defaults) used.insert(x);
    std::vector<int> leaves;
    for (const Stmt& s : w.sc.stmts) {
      if (!s.alive || s.regen || !s.dyndep.empty()) continue;
      bool leaf = true;
      for (auto& o : w.sc.DeclaredOuts(s.id)) if (used.count(o) || w.sc.FindDyndep(o)) leaf = false;
      if (leaf) leaves.push_back(s.id);
    }
    // a third kind of edit: `deps = gcc` is dropped from a statement, its depfile binding stays
    // (the command line is the same; what the deps log holds for it must not be used any more)
    std::vector<int> with_deps;
    for (const Stmt& q : w.sc.stmts) if (q.alive && q.deps_kind == 2 && !q.regen) with_deps.push_back(q.id);
    if (!with_deps.empty() && H(3) == 0) {
      Stmt& q = w.sc.stmts[with_deps[H((uint32_t)with_deps.size())]];
      q.deps_kind = 1;
      Note("manifest edit: `deps = gcc` dropped from statement " + std::to_string(q.id) + " (depfile kept)");
      w.WriteManifest();
      rr.stats.n["manifest_edit_deps_dropped"]++;
      return;
    }
    // a fourth kind: a generated file becomes a checked-in one.  The statement goes, what it
    // made stays - hand-written now - and the statements that read it go on reading it
    std::vector<int> inner;
    for (const Stmt& q : w.sc.stmts) {
      if (!q.alive || q.regen || q.phony || !q.dyndep.empty()) continue;
      bool is_used = false, dd = false;
      // (not one a dyndep file names: whether the graph still mentions it would depend on that file being there)
      for (auto& o : w.sc.DeclaredOuts(q.id)) {
        if (used.count(o)) is_used = true;
        if (w.sc.FindDyndep(o)) dd = true;
        for (auto& d : w.sc.dyndeps) for (auto& e : d.entries) for (auto& x : e.imp_ins) if (x == o) dd = true;
      }
      if (is_used && !dd) inner.push_back(q.id);
    }
    bool can_alias = false;
    for (const Stmt& c : w.sc.stmts) if (c.alive && c.phony) can_alias = true;
    if (can_alias) { can_alias = false; for (int id : leaves) if (!w.sc.stmts[id].phony) can_alias = true; }
    if ((!inner.empty() || can_alias) && H(4) == 0) {
      // (half the time one whose outputs only aliases and validations still name, if there is one)
      std::set<std::string> really_read;
      for (const Stmt& c : w.sc.stmts) {
        if (!c.alive || c.phony) continue;
        for (auto* v : {&c.ins, &c.imp_ins, &c.oo_ins, &c.hidden}) for (auto& x : *v) really_read.insert(x);
      }
      for (auto& d : w.sc.dyndeps) for (auto& e : d.entries) for (auto& x : e.imp_ins) really_read.insert(x);
      std::vector<int> alias_only;
      for (int id : inner) {
        bool rr2 = false;
        for (auto& o : w.sc.DeclaredOuts(id)) if (really_read.count(o)) rr2 = true;
        if (!rr2) alias_only.push_back(id);
      }
      if (!alias_only.empty() && H(2) == 0) inner = alias_only;
      // (or an alias goes on listing a name no statement makes any more)
      std::vector<int> aliases, plain_leaves;
      for (const Stmt& c : w.sc.stmts) if (c.alive && c.phony) aliases.push_back(c.id);
      for (int id : leaves) if (!w.sc.stmts[id].phony) plain_leaves.push_back(id);
      if (!aliases.empty() && !plain_leaves.empty() && H(3) == 0) {
        int leaf = plain_leaves[H((uint32_t)plain_leaves.size())];
        Stmt& a = w.sc.stmts[aliases[H((uint32_t)aliases.size())]];
        a.ins.push_back(w.sc.stmts[leaf].outs[0]);
        used.insert(w.sc.stmts[leaf].outs[0]);
        inner.assign(1, leaf);
        Note("manifest edit: alias " + a.outs[0] + " now also lists " + w.sc.stmts[leaf].outs[0]);
      }
      if (inner.empty()) return;
      Stmt& q = w.sc.stmts[inner[H((uint32_t)inner.size())]];
      q.alive = false;
      for (auto& o : w.sc.DeclaredOuts(q.id)) {
        if (!used.count(o)) continue;   // what nothing reads is simply left behind
        w.sc.sources.push_back(o);
        w.version[o] = 0;
        w.k.WriteFile(o, w.SourceContent(o), true);
      }
      Note("manifest edit: statement " + std::to_string(q.id) + " removed, its outputs are checked-in files now");
      w.WriteManifest();
      rr.stats.n["manifest_edit_output_to_source"]++;
      if (prof.w_cleandead > 0 && H(2) == 0) forced_op = 10;   // ... and the next thing the user does is tidy up
      return;
    }
    if (leaves.empty()) return;
    Stmt& s = w.sc.stmts[leaves[H((uint32_t)leaves.size())]];
    if (H(2) == 0) {
      s.alive = false;
      Note("manifest edit: statement " + std::to_string(s.id) + " removed");
    } else {
      std::string old = s.outs[0];
      s.outs[0] += "r";
      if (!s.depfile.empty()) s.depfile = s.outs[0] + ".d";
      Note("manifest edit: output " + old + " renamed to " + s.outs[0]);
    }
    w.WriteManifest();
  }

  void DoEdit(bool content) {
    std::vector<std::string> s = EditableSources();
    if (s.empty()) return;
    std::string p = s[H((uint32_t)s.size())];
    if (content) { w.version[p]++; w.k.WriteFile(p, w.SourceContent(p), true); Note("edit " + p); }
    else { w.k.Touch(p, true); Note("touch " + p); }
  }

  // the include directives of a source change, what it computes does not
  void DoEditIncludes() {
    std::vector<std::string> s = EditableSources();
    if (s.empty()) return;
    std::string p = s[H((uint32_t)s.size())];
    if (w.emptied.count(p)) return;
    w.inc_version[p]++;
    w.k.WriteFile(p, w.SourceContent(p), true);
    Note("edit includes of " + p);
  }

  // Discovered dependencies change over time: a source starts including another
  // (possibly empty) file, gets rebuilt, and then that file changes.
  void DoIncludeChurn() {
    std::vector<int> cands;
    for (const Stmt& s : w.sc.stmts) if (s.alive && !s.hidden.empty() && !s.ins.empty() && w.sc.IsSource(s.ins[0]) && !w.sc.FindDyndep(s.ins[0]) && s.ins[0] != "gen.src") cands.push_back(s.id);
    if (cands.empty()) return;
    // variant: swap one included header for another while neither contributes anything
    // (both empty), so a restat command leaves its output - and the mtime its deps
    // record carries - alone while the set of discovered inputs changes
    if (H(2) == 0) {
      std::vector<int> pref;
      // (the choice must not depend on anything a twin world rewrites: deps kind, where restat is declared)
      for (int id : cands) {
        const DyndepEntry* de = w.sc.DyndepFor(id);
        if ((w.sc.stmts[id].restat || (de && de->restat)) && w.sc.stmts[id].hidden.size() >= 2) pref.push_back(id);
      }
      if (!pref.empty()) cands = pref;
      DoIncludeSwap(w.sc.stmts[cands[H((uint32_t)cands.size())]]);
      return;
    }
    const Stmt& s = w.sc.stmts[cands[H((uint32_t)cands.size())]];
    std::string primary = s.ins[0];
    // headers that are sources may be empty for a while
    for (auto& h : s.hidden) if (w.sc.IsSource(h) && !w.sc.FindDyndep(h) && H(2) == 0 && h != primary) { w.emptied.insert(h); w.k.WriteFile(h, w.SourceContent(h), true); }
    Note("include churn on statement " + std::to_string(s.id));
    DoBuild();
    if (dead) return;
    if (!w.emptied.count(primary)) { w.inc_version[primary]++; w.k.WriteFile(primary, w.SourceContent(primary), true); Note("edit includes of " + primary); }
    DoBuild();
    if (dead) return;
    for (auto& h : s.hidden) {
      if (!w.sc.IsSource(h) || w.sc.FindDyndep(h)) continue;
      w.emptied.erase(h);
      w.version[h]++;
      w.k.WriteFile(h, w.SourceContent(h), true);
      Note("edit " + h);
    }
    DoBuild();
  }

  // `ninja -t restat [outputs]` and `ninja -t recompact` from the command line (C08: "`-t restat`
  // changes only the recorded mtimes"; recompaction keeps the latest record of everything
  // that is still in the manifest).
  void DoLogTool() {
    if (ManifestGone()) { dead = true; return; }
    bool restat = H(3) != 0;
    InvPlan p;
    p.stream = ST_INV0 + inv_index++;
    p.j = -1;
    p.tool.push_back(restat ? "restat" : "recompact");
    std::vector<std::string> scope;
    if (restat && H(2) == 0) scope = SomeTargets(2);
    // (the restat tool runs before the manifest is loaded: it has to be told where the log is)
    if (restat && !w.sc.builddir.empty()) p.tool.push_back("--builddir=" + w.sc.builddir);
    for (auto& t : scope) p.tool.push_back(t);
    Note(std::string("tool ") + (restat ? "restat" : "recompact") + [&]() { std::string s; for (auto& t : scope) s += " " + t; return s; }());
    FsSnap before = Snap();
    InvRecord r = w.RunInvocation(p);
    Note(ResultText(r));
    if (getenv("SIM_SHOW_OUTPUT")) Note("  stdout: " + r.res.out.substr(0, 2000) + "\n  stderr: " + r.res.err);
    w.CheckTermination(r);
    if (r.res.end != ProcResult::kExit) return;
    rr.stats.n[restat ? "tool_restat" : "tool_recompact"]++;
    rr.stats.nontrivial["C08"] = true;
    std::string what = std::string("ninja -t ") + (restat ? "restat" : "recompact");
    if (!r.spawns.empty()) w.Report("C08", "log_tool", what + " started " + std::to_string(r.spawns.size()) + " build commands");
    FsSnap after = Snap();
    for (auto& kv : before.files) {
      if (IsLogPath(kv.first)) continue;
      auto a = after.files.find(kv.first);
      if (a == after.files.end()) w.Report("C08", "log_tool", what + " deleted " + kv.first);
      else if (a->second != kv.second) w.Report("C08", "log_tool", what + " modified " + kv.first);
    }
    for (auto& kv : after.files) if (!before.files.count(kv.first) && !IsLogPath(kv.first)) w.Report("C08", "log_tool", what + " created " + kv.first);
    if (r.res.exit_code != 0 || !r.log_before.valid_header || r.log_torn_tail_before || r.fault_fired) return;
    std::set<std::string> declared;
    for (const Stmt& s : w.sc.stmts) if (s.alive) for (auto& o : s.AllOuts()) declared.insert(o);
    for (auto& kv : r.log_before.last) {
      // recompaction may drop paths no statement declares; restat keeps every entry
      if (!restat && !declared.count(kv.first)) continue;
      auto a = r.log_after.last.find(kv.first);
      if (a == r.log_after.last.end()) {
        // K27: the restat tool runs without the manifest; when the log it rewrites is due for
        // recompaction, "dead" is decided by the disk alone and the record of a declared output
        // whose file is missing goes (harmless: a missing output is rebuilt anyway)
        // (the restat tool's own recompaction may drop what is neither declared nor on disk)
        if (restat && !declared.count(kv.first) && !w.k.Exists(kv.first)) continue;
        if (restat && declared.count(kv.first) && !w.k.Exists(kv.first))
          w.Report("C08", "restat_recompaction_drops_missing_output", what + " dropped the record of " + kv.first + ", which the manifest still declares; its file is missing and the rewritten log was due for recompaction");
        else
          w.Report("C08", "log_tool", what + " dropped the record of " + kv.first);
        continue;
      }
      if (a->second.hash != kv.second.hash || a->second.start != kv.second.start || a->second.end != kv.second.end)
        w.Report("C08", "log_tool", what + " changed the command hash or times recorded for " + kv.first);
      bool in_scope = restat && (scope.empty() || std::find(scope.begin(), scope.end(), kv.first) != scope.end());
      int64_t want = in_scope ? (w.k.Exists(kv.first) ? w.k.Mtime(kv.first) : 0) : kv.second.mtime;
      if (a->second.mtime != want)
        w.Report("C08", "log_tool", what + " left mtime " + std::to_string(a->second.mtime) + " recorded for " + kv.first + ", expected " + std::to_string(want) + (in_scope ? " (the file's current mtime)" : " (unchanged: not in the tool's scope)"));
    }
    for (auto& kv : r.log_after.last) if (!r.log_before.last.count(kv.first)) w.Report("C08", "log_tool", what + " invented a record for " + kv.first);
    if (r.deps_before.valid_header) {
      for (auto& kv : r.deps_before.last) {
        bool live = false;
        for (const Stmt& s : w.sc.stmts) if (s.alive && s.deps_kind >= 2) for (auto& o : s.AllOuts()) if (o == kv.first) live = true;
        if (!live) continue;
        auto a = r.deps_after.last.find(kv.first);
        if (a == r.deps_after.last.end() || a->second.mtime != kv.second.mtime || a->second.deps != kv.second.deps)
          w.Report("C08", "log_tool", what + " changed the recorded dependencies of " + kv.first);
      }
    }
  }

  // A restat statement is rebuilt on its own (target subset) after a real edit, then its
  // source is merely touched and everything is built: the command runs again, leaves its
  // output alone, and the pruning that follows must not take the statements behind that
  // output (directly or through aliases) along - they have not seen the rewritten output yet.
  void DoSubsetThenTouch() {
    std::vector<int> cands;
    for (const Stmt& s : w.sc.stmts) {
      if (!s.alive || s.phony || s.regen || s.ins.empty()) continue;
      const DyndepEntry* de = w.sc.DyndepFor(s.id);
      if (!(s.restat || (de && de->restat))) continue;
      const std::string& src = s.ins[0];
      if (!w.sc.IsSource(src) || w.sc.FindDyndep(src) || src == "gen.src") continue;
      cands.push_back(s.id);
    }
    if (cands.empty()) { DoEdit(true); return; }
    // prefer one whose output reaches a command only through a phony alias
    std::vector<int> via_alias;
    for (int id : cands) {
      bool found = false;
      for (const Stmt& ph : w.sc.stmts) {
        if (!ph.alive || !ph.phony) continue;
        bool has = false;
        for (auto& o : w.sc.stmts[id].AllOuts()) if (std::find(ph.ins.begin(), ph.ins.end(), o) != ph.ins.end() || std::find(ph.imp_ins.begin(), ph.imp_ins.end(), o) != ph.imp_ins.end()) has = true;
        if (!has) continue;
        for (const Stmt& c : w.sc.stmts) if (c.alive && !c.phony && (std::find(c.ins.begin(), c.ins.end(), ph.outs[0]) != c.ins.end() || std::find(c.imp_ins.begin(), c.imp_ins.end(), ph.outs[0]) != c.imp_ins.end())) found = true;
      }
      if (found) via_alias.push_back(id);
    }
    if (!via_alias.empty()) { cands = via_alias; rr.stats.n["subset_then_touch_via_alias"]++; }
    const Stmt& s = w.sc.stmts[cands[H((uint32_t)cands.size())]];
    std::string src = s.ins[0];
    if (w.emptied.count(src)) w.emptied.erase(src);
    w.version[src]++;
    w.k.WriteFile(src, w.SourceContent(src), true);
    Note("edit " + src + " (then build only statement " + std::to_string(s.id) + ")");
    force_targets = true; forced_targets = {s.outs[0]};
    DoBuild();
    if (dead) return;
    w.k.Touch(src, true);
    Note("touch " + src + " (then build everything)");
    force_targets = true; forced_targets.clear();
    DoBuild();
    rr.stats.n["subset_then_touch"]++;
  }

  void DoIncludeSwap(const Stmt& s) {
    std::string primary = s.ins[0];
    if (w.emptied.count(primary)) { w.emptied.erase(primary); w.version[primary]++; w.k.WriteFile(primary, w.SourceContent(primary), true); }
    auto plain_header = [&](const std::string& h) { return w.sc.IsSource(h) && !w.sc.FindDyndep(h) && h != primary && h != "gen.src"; };
    for (auto& h : s.hidden) if (plain_header(h) && !w.emptied.count(h)) { w.emptied.insert(h); w.k.WriteFile(h, w.SourceContent(h), true); }
    Note("include swap on statement " + std::to_string(s.id) + ": its headers are empty");
    DoBuild();
    if (dead) return;
    ContentFn get = [&](const std::string& p, std::string* c) { *c = w.SourceContent(p); return true; };
    std::vector<std::string> cur = ActiveHidden(w.sc, s, get);
    int old = w.inc_version[primary], pick = old + 1;
    std::vector<std::string> added;
    for (int j = 1; j <= 64; j++) {
      w.inc_version[primary] = old + j;
      std::vector<std::string> nxt = ActiveHidden(w.sc, s, get);
      if (nxt.size() != cur.size() || nxt == cur) continue;
      bool only_empty = true;
      std::vector<std::string> add;
      for (auto& h : nxt) if (std::find(cur.begin(), cur.end(), h) == cur.end()) { add.push_back(h); if (!w.emptied.count(h)) only_empty = false; }
      for (auto& h : cur) if (std::find(nxt.begin(), nxt.end(), h) == nxt.end() && !w.emptied.count(h)) only_empty = false;
      if (only_empty) { pick = old + j; added = add; rr.stats.n["include_swap_same_size"]++; break; }
    }
    w.inc_version[primary] = pick;
    w.k.WriteFile(primary, w.SourceContent(primary), true);
    Note("edit includes of " + primary + (added.empty() ? "" : " (swaps empty headers)"));
    DoBuild();
    if (dead) return;
    // the newly included headers get content
    if (added.empty()) for (auto& h : s.hidden) if (plain_header(h)) added.push_back(h);
    for (auto& h : added) {
      if (!plain_header(h)) continue;
      w.emptied.erase(h);
      w.version[h]++;
      w.k.WriteFile(h, w.SourceContent(h), true);
      Note("fill " + h);
    }
    DoBuild();
  }

  // C11, invalid variants: the dyndep file is damaged (as a storage fault for a
  // source file, or written damaged by its producer mid-build); a build that needs
  // it must fail with an error instead of accepting it.
  void DoInvalidDyndep() {
    std::vector<int> cands;
    for (size_t i = 0; i < w.sc.dyndeps.size(); i++) {
      bool live = false;
      for (auto& e : w.sc.dyndeps[i].entries) if (e.stmt >= 0 && w.sc.stmts[e.stmt].alive) live = true;
      if (live && !w.sc.dyndeps[i].detached) cands.push_back((int)i);
    }
    if (cands.empty()) return;
    const DyndepFile& dd = w.sc.dyndeps[cands[H((uint32_t)cands.size())]];
    std::string good = w.sc.DyndepText(dd);
    std::vector<std::string> lines;   // with their newline
    for (size_t i = 0; i < good.size();) { size_t nl = good.find('\n', i); lines.push_back(good.substr(i, nl - i + 1)); i = nl + 1; }
    std::vector<size_t> build_lines;
    for (size_t i = 0; i < lines.size(); i++) if (lines[i].compare(0, 6, "build ") == 0) build_lines.push_back(i);
    if (build_lines.empty()) return;
    uint32_t v = H(11);
    std::string bad, what;
    const DyndepEntry* first = nullptr;
    for (auto& e : dd.entries) if (e.stmt >= 0 && w.sc.stmts[e.stmt].alive) { first = &e; break; }
    std::string consumer_out = w.sc.stmts[first->stmt].outs[0];
    auto join = [&](const std::vector<std::string>& ls) { std::string s; for (auto& l : ls) s += l; return s; };
    if (v == 0) { bad = "<absent>"; what = "missing"; }
    else if (v == 1) {   // cut inside the version line
      size_t cut = 1 + H((uint32_t)lines[0].size() - 3);
      bad = good.substr(0, cut); what = "truncated inside the version line";
    } else if (v == 2) { // cut at a line boundary so that a build statement is lost
      size_t keep = build_lines[H((uint32_t)build_lines.size())];
      std::vector<std::string> ls(lines.begin(), lines.begin() + keep);
      bad = join(ls); what = "truncated before a build statement";
    } else if (v == 3) { // a dangling pipe at the end of the file
      size_t bl = build_lines.back();
      std::vector<std::string> ls(lines.begin(), lines.begin() + bl);
      bad = join(ls) + "build " + NinjaPathEscape(consumer_out) + " | "; what = "truncated right after 'build out | '";
      if (H(2)) { bad = join(ls) + "build " + NinjaPathEscape(consumer_out) + ": dyndep | "; what = "truncated right after ': dyndep | '"; }
    } else if (v == 4) { // a build statement deleted
      std::vector<std::string> ls = lines;
      size_t bl = build_lines[H((uint32_t)build_lines.size())];
      size_t n = (bl + 1 < ls.size() && ls[bl + 1].compare(0, 2, "  ") == 0) ? 2 : 1;
      ls.erase(ls.begin() + bl, ls.begin() + bl + n);
      bad = join(ls); what = "a build statement deleted";
    } else if (v == 5) { // a build statement duplicated
      std::vector<std::string> ls = lines;
      size_t bl = build_lines[H((uint32_t)build_lines.size())];
      ls.push_back(lines[bl]);
      bad = join(ls); what = "a build statement duplicated";
    } else if (v == 6) { // a statement without the binding
      std::string other;
      for (const Stmt& s : w.sc.stmts) if (s.alive && !s.phony && !s.regen && s.dyndep != dd.path) other = s.outs[0];
      if (other.empty()) return;
      bad = good + "build " + NinjaPathEscape(other) + ": dyndep\n"; what = "an extra build statement for an output without the binding";
    } else if (v == 7) { // claims an output twice / one another statement produces
      std::string other;
      for (const Stmt& s : w.sc.stmts) if (s.alive && !s.phony && !s.regen && s.id != first->stmt) other = s.outs[0];
      std::string claim = (H(2) || other.empty()) ? consumer_out : other;
      std::vector<std::string> ls = lines;
      size_t bl = build_lines[0];
      std::string l = ls[bl];
      size_t colon = l.find(": dyndep");
      size_t pipe = l.find(" | ");
      if (pipe != std::string::npos && pipe < colon) l.insert(colon, " " + NinjaPathEscape(claim)); else l.insert(colon, " | " + NinjaPathEscape(claim));
      ls[bl] = l;
      bad = join(ls); what = "an implicit output that is already produced ('" + claim + "')";
    } else if (v == 9 || v == 10) {   // an output that is new to the graph, named twice inside this one file
      auto add_out = [&](std::string l, const std::string& name) {
        size_t colon = l.find(": dyndep");
        size_t pipe = l.find(" | ");
        if (pipe != std::string::npos && pipe < colon) l.insert(colon, " " + name); else l.insert(colon, " | " + name);
        return l;
      };
      std::vector<std::string> ls = lines;
      std::string fresh = "fresh.out";
      if (v == 10 && build_lines.size() >= 2) {
        size_t a = build_lines[0], b2 = build_lines[1 + H((uint32_t)build_lines.size() - 1)];
        ls[a] = add_out(ls[a], fresh); ls[b2] = add_out(ls[b2], fresh);
        what = "an implicit output new to the graph that two of its statements claim";
      } else {
        size_t a = build_lines[H((uint32_t)build_lines.size())];
        ls[a] = add_out(add_out(ls[a], fresh), fresh);
        what = "an implicit output new to the graph that one statement names twice";
      }
      bad = join(ls);
      rr.stats.n["invalid_dyndep_fresh_output_twice"]++;
    } else {              // an input that closes a cycle
      std::vector<std::string> ls = lines;
      size_t bl = build_lines[0];
      std::string l = ls[bl];
      l.erase(l.size() - 1);
      if (l.find(": dyndep |") == std::string::npos) l += " |";
      l += " " + NinjaPathEscape(consumer_out) + "\n";
      ls[bl] = l;
      bad = join(ls); what = "an implicit input that closes a cycle";
    }
    Note("invalid dyndep: " + dd.path + " is " + what);
    w.dd_override[dd.path] = bad;
    auto dirty_producer = [&]() {
      if (dd.producer < 0) return;
      const Stmt& p = w.sc.stmts[dd.producer];
      for (auto& in : p.ins) if (w.sc.IsSource(in) && !w.sc.FindDyndep(in)) { w.version[in]++; w.emptied.erase(in); w.k.WriteFile(in, w.SourceContent(in), true); return; }
      w.k.Remove(dd.path);
    };
    if (dd.producer < 0) {
      if (bad == "<absent>") w.k.Remove(dd.path); else w.k.WriteFile(dd.path, bad, true);
    } else {
      dirty_producer();
    }
    InvPlan p;
    p.stream = ST_INV0 + inv_index++;
    p.j = 1 + (int)H(4);
    p.k = H(2) ? 1 : 0;
    p.targets.push_back(consumer_out);
    Note(PlanText(p));
    InvRecord r = w.RunInvocation(p);
    Note(ResultText(r));
    if (getenv("SIM_SHOW_OUTPUT")) Note("  stdout: " + r.res.out + "\n  stderr: " + r.res.err);
    w.CheckTermination(r);
    w.CheckOrdering(r);
    rr.stats.n["invalid_dyndep_builds"]++;
    rr.stats.nontrivial["C11"] = true;
    bool has_error = r.res.err.find("ninja: error") != std::string::npos || r.res.out.find("ninja: build stopped") != std::string::npos;
    if (r.res.end == ProcResult::kExit && (r.res.exit_code == 0 || !has_error))
      w.Report("C11", "invalid_dyndep_accepted", "dyndep file " + dd.path + " (" + what + ") was accepted: ninja exited " + std::to_string(r.res.exit_code) + (has_error ? "" : " without an error message"));
    // repair
    w.dd_override.erase(dd.path);
    if (dd.producer < 0) w.k.WriteFile(dd.path, w.SourceContent(dd.path), true);
    else dirty_producer();
  }

  // C13: storage damage - any bytes may be found in the logs, depfiles, dyndep
  // files or a (re)generated manifest.
  std::string DamageBytes(std::string b) {
    uint32_t kind = H(9);
    if (b.empty()) kind = 1;
    switch (kind) {
      case 7: b.erase(0, 1 + H((uint32_t)b.size())); break;                                // lost beginning (the file starts mid-way)
      case 8: { size_t at = H((uint32_t)b.size()), n = 1 + H(32); for (size_t i = 0; i < n && at + i < b.size(); i++) b[at + i] = '\0'; break; }   // a zeroed block inside
      case 0: b.resize(H((uint32_t)b.size() + 1)); break;                                 // truncate
      case 1: { int n = 1 + (int)H(64); for (int i = 0; i < n; i++) b += (char)H(256); break; }   // garbage tail
      case 2: { size_t at = H((uint32_t)b.size()); b[at] = (char)(b[at] ^ (1 << H(8))); break; }  // bit flip
      case 3: b.append(1 + H(64), '\0'); break;                                           // zero tail (size extended)
      case 4: { size_t a = H((uint32_t)b.size()), n = 1 + H(64); b.insert(a, b.substr(a, n)); break; }   // duplicated block
      case 5: { size_t at = H((uint32_t)b.size()); size_t n = 1 + H(8); for (size_t i = 0; i < n && at + i < b.size(); i++) b[at + i] = (char)H(256); break; }  // overwritten field
      default: { size_t at = H((uint32_t)b.size()); uint32_t v = H(5) == 0 ? 0xffffffffu : H(4) == 0 ? 0x80000000u | H(64) : H(1 << 20); if (at + 4 <= b.size()) memcpy(&b[at / 4 * 4 < b.size() - 3 ? at / 4 * 4 : 0], &v, 4); break; }   // a whole 32-bit field
    }
    return b;
  }
  void DoDamage() {
    std::vector<std::string> files;
    std::string d = w.sc.LogDir();
    if (w.k.Exists(d + ".ninja_log")) files.push_back(d + ".ninja_log");
    if (w.k.Exists(d + ".ninja_deps")) { files.push_back(d + ".ninja_deps"); files.push_back(d + ".ninja_deps"); }
    std::set<std::string> depfiles;
    for (const Stmt& s : w.sc.stmts) if (s.alive && !s.depfile.empty() && w.k.Exists(s.depfile)) { files.push_back(s.depfile); files.push_back(s.depfile); depfiles.insert(s.depfile); }
    for (auto& dd : w.sc.dyndeps) if (w.k.Exists(dd.path)) files.push_back(dd.path);
    files.push_back("build.ninja");
    std::string f = files[H((uint32_t)files.size())];
    std::string b, orig;
    w.k.ReadFile(f, &b);
    orig = b;
    std::string damaged = DamageBytes(b);
    // a depfile that lost exactly its beginning: what is left starts at the colon (no target at all),
    // or is a second rule line for a target that has none of its own
    if (depfiles.count(f) && b.find(':') != std::string::npos) {
      uint32_t dk = Hash64(b, (uint64_t)inv_index * 13 + 5) % 4;
      if (dk == 0) damaged = b.substr(b.find(':'));
      else if (dk == 1) damaged = b.substr(b.find(':') + 1);
      if (dk <= 1) rr.stats.n["depfile_lost_target"]++;
    }
    w.k.WriteFile(f, damaged, true);
    Note("damage " + f);
    rr.stats.faults["storage_damage"]++;
    rr.stats.nontrivial["C13"] = true;
    DoBuild();
    // sources of truth are put back so that the history stays productive
    if (f == "build.ninja" || w.sc.FindDyndep(f)) {
      if (f == "build.ninja") w.WriteManifest();
      else if (w.sc.FindDyndep(f)->producer < 0) w.k.WriteFile(f, w.SourceContent(f), true);
      dead = false;
    }
  }

  // A regular file sits where an output directory would have to be created
  // (or the obstacle is removed again).
  void DoBlockDir() {
    std::vector<std::string> dirs;
    for (const Stmt& s : w.sc.stmts) if (s.alive && !s.phony) {
      for (auto& o : s.outs) { size_t sl = o.find('/'); if (sl != std::string::npos) dirs.push_back(o.substr(0, sl)); }
      size_t sl = s.depfile.find('/');
      if (sl != std::string::npos && s.depfile.find('/', sl + 1) != std::string::npos) dirs.push_back(s.depfile.substr(0, sl));
    }
    if (dirs.empty()) return;
    std::string dir = dirs[H((uint32_t)dirs.size())];
    Inode* n = w.k.fs.Find(w.k.Abs(dir));
    if (!n) { w.k.WriteFile(dir, "not a directory\n", true); Note("block directory " + dir + " with a regular file"); rr.stats.n["dir_blocked"]++; }
    else if (n->kind == Inode::kFile) { w.k.Remove(dir); Note("unblock directory " + dir); }
  }

  void DoEmptySource() {
    std::vector<std::string> s = EditableSources();
    if (s.empty()) return;
    std::string p = s[H((uint32_t)s.size())];
    if (w.emptied.count(p)) { w.emptied.erase(p); w.version[p]++; Note("fill " + p); }
    else { w.emptied.insert(p); Note("empty " + p); }
    w.k.WriteFile(p, w.SourceContent(p), true);
  }

  // Many earlier builds leave many superseded records: append copies of the
  // current records (meaning unchanged) so that the next load recompacts.
  void DoInflateLog() { InflateLogs(w, H(2) == 0, true); }
  void InflateLogs(World& w, bool also_deps, bool note) {
    std::string path = w.sc.LogDir() + ".ninja_log", b;
    if (w.k.ReadFile(path, &b) && !b.empty() && b.back() == '\n') {
      BuildLogFold f = FoldBuildLog(b, true);
      if (f.valid_header && !f.last.empty()) {
        int copies = 1 + 110 / (int)f.last.size() + 3;
        std::string add;
        for (int c = 0; c < copies; c++)
          for (auto& kv : f.last) {
            char l1[96], l2[40];
            snprintf(l1, sizeof l1, "%d\t%d\t%lld\t", kv.second.start, kv.second.end, (long long)kv.second.mtime);
            snprintf(l2, sizeof l2, "\t%llx\n", (unsigned long long)kv.second.hash);
            add += std::string(l1) + kv.first + l2;
          }
        w.k.WriteFile(path, b + add, true);
        if (note) Note("inflate .ninja_log with " + std::to_string(copies) + " copies of its " + std::to_string(f.last.size()) + " records");
        rr.stats.n["log_inflated"]++;
      }
    }
    if (also_deps) {
      std::string dp = w.sc.LogDir() + ".ninja_deps", db;
      if (w.k.ReadFile(dp, &db)) {
        DepsLogFold f = FoldDepsLog(db, true);
        if (f.valid_header && f.clean_eof && !f.last.empty()) {
          // re-append every output's latest deps record (ids are positions in f.paths)
          std::map<std::string, int> id;
          for (size_t i = 0; i < f.paths.size(); i++) id[f.paths[i]] = (int)i;
          std::string add;
          int copies = 1 + 1010 / (int)f.last.size() + 3;
          std::string one;
          for (auto& kv : f.last) {
            uint32_t size = (uint32_t)(4 * (3 + kv.second.deps.size())) | 0x80000000u;
            one.append((const char*)&size, 4);
            int32_t oid = id[kv.first]; one.append((const char*)&oid, 4);
            uint32_t lo = (uint32_t)(kv.second.mtime & 0xffffffff), hi = (uint32_t)((uint64_t)kv.second.mtime >> 32);
            one.append((const char*)&lo, 4); one.append((const char*)&hi, 4);
            for (auto& dpth : kv.second.deps) { int32_t di = id[dpth]; one.append((const char*)&di, 4); }
          }
          for (int c = 0; c < copies; c++) add += one;
          w.k.WriteFile(dp, db + add, true);
          if (getenv("SIM_DEBUG_INFLATE")) {
            DepsLogFold g = FoldDepsLog(db + add, true);
            fprintf(stderr, "INFLATE deps: before total=%d last=%zu paths=%zu; after total=%d last=%zu clean=%d\n", f.total, f.last.size(), f.paths.size(), g.total, g.last.size(), (int)g.clean_eof);
            for (auto& kv : f.last) { fprintf(stderr, "  %s mtime=%lld:", kv.first.c_str(), (long long)kv.second.mtime); for (auto& x : kv.second.deps) fprintf(stderr, " %s", x.c_str()); fprintf(stderr, "\n"); }
            for (size_t i = 0; i < f.paths.size(); i++) fprintf(stderr, "  id %zu = %s\n", i, f.paths[i].c_str());
          }
          if (note) Note("inflate .ninja_deps with " + std::to_string(copies) + " copies of its records");
          rr.stats.n["deps_inflated"]++;
        }
      }
    }
  }

  // C11: a dyndep file is regenerated mid-build while its consumer is clean under a dirty
  // target, and the input the file adds comes from a statement that is clean itself but has
  // to wait for an order-only dependency that is out of date and that nothing else in the
  // build needs.  Only the dyndep information pulls that part of the graph into the plan.
  // (the choice looks at the dyndep entries themselves: they are the same in both twin worlds)
  void DoDyndepStir() {
    struct Tup { int p, x, py, pz, t; std::string z; };
    std::vector<Tup> tups;
    // inputs of a statement, the ones its dyndep file adds included (in the second twin world
    // those are written into imp_ins: the union is the same in both worlds)
    auto inputs_of = [&](int c) {
      const Stmt& cs = w.sc.stmts[c];
      std::vector<std::string> v;
      for (auto* l : {&cs.ins, &cs.imp_ins, &cs.oo_ins, &cs.validations}) for (auto& q : *l) v.push_back(q);
      for (const DyndepFile& d2 : w.sc.dyndeps) for (const DyndepEntry& e2 : d2.entries) if (e2.stmt == c) for (auto& q : e2.imp_ins) if (std::find(v.begin(), v.end(), q) == v.end()) v.push_back(q);
      return v;
    };
    auto manifest_producer = [&](const std::string& q) {
      for (const Stmt& m : w.sc.stmts) if (m.alive) for (auto& o : m.AllOuts()) if (o == q) return m.id;
      for (const DyndepFile& d2 : w.sc.dyndeps) for (const DyndepEntry& e2 : d2.entries) if (e2.stmt >= 0 && w.sc.stmts[e2.stmt].alive) for (auto& o : e2.imp_outs) if (o == q) return e2.stmt;
      return -1;
    };
    for (const DyndepFile& dd : w.sc.dyndeps) {
      if (dd.producer < 0 || !w.sc.stmts[dd.producer].alive) continue;
      for (const DyndepEntry& e : dd.entries) {
        if (e.stmt < 0 || !w.sc.stmts[e.stmt].alive) continue;
        for (auto& y : e.imp_ins) {
          int py = manifest_producer(y);
          if (py < 0 || py == dd.producer || w.sc.stmts[py].phony || !w.sc.stmts[py].alive) continue;
          for (auto& z : w.sc.stmts[py].oo_ins) {
            int pz = manifest_producer(z);
            if (pz < 0 || pz == dd.producer || pz == e.stmt || w.sc.stmts[pz].phony || w.sc.FindDyndep(z)) continue;
            for (const Stmt& t : w.sc.stmts) {
              if (!t.alive || t.phony || t.regen || t.id == e.stmt || t.id == py || t.id == pz) continue;
              bool uses = false;
              for (auto& q : inputs_of(t.id)) if (manifest_producer(q) == e.stmt) uses = true;
              if (!uses) continue;
              // ... and neither of them is needed by the target for any other reason than x -> y
              std::set<int> seen;
              std::vector<int> todo = {t.id};
              while (!todo.empty()) {
                int c = todo.back(); todo.pop_back();
                if (!seen.insert(c).second) continue;
                for (auto& q : inputs_of(c)) {
                  if (c == e.stmt && q == y) continue;
                  int pq = manifest_producer(q);
                  if (pq >= 0) todo.push_back(pq);
                }
              }
              if (seen.count(py) || seen.count(pz)) continue;
              tups.push_back({dd.producer, e.stmt, py, pz, t.id, z});
            }
          }
        }
      }
    }
    if (getenv("SIM_DEBUG_STIR")) Note("stir candidates: " + std::to_string(tups.size()));
    if (tups.empty()) { DoBuild(); return; }
    Tup u = tups[H((uint32_t)tups.size())];
    DoBuild();   // everything up to date first
    if (dead) return;
    std::string pout;
    for (auto& o : w.sc.stmts[u.p].AllOuts()) if (!w.sc.FindDyndep(o)) { pout = o; break; }
    if (pout.empty()) pout = w.sc.stmts[u.p].AllOuts()[0];
    w.k.Remove(pout);
    w.k.Remove(u.z);
    w.k.Remove(w.sc.stmts[u.t].outs[0]);
    Note("dyndep stir: delete " + pout + " (producer of the dyndep file), " + u.z + " (order-only input of statement " + std::to_string(u.py) + "), " + w.sc.stmts[u.t].outs[0] + "; build only statement " + std::to_string(u.t));
    force_targets = true; forced_targets = {w.sc.stmts[u.t].outs[0]};
    DoBuild();
    rr.stats.n["dyndep_stir"]++;
  }

  // A source file that a needed statement names as an explicit or implicit input is gone:
  // ninja must say so before it starts anything - also when the file is only needed by a
  // validation target - and the build after the file is back is an ordinary one.
  void DoMissingSource() {
    std::vector<std::string> cands;
    for (auto& p : EditableSources()) {
      bool named = false;
      for (const Stmt& s : w.sc.stmts) if (s.alive) for (auto* v : {&s.ins, &s.imp_ins}) if (std::find(v->begin(), v->end(), p) != v->end()) named = true;
      if (named && w.k.Exists(p)) cands.push_back(p);
    }
    if (cands.empty()) return;
    std::string p = cands[H((uint32_t)cands.size())];
    w.k.Remove(p);
    Note("source " + p + " disappears");
    w.missing_source = p;
    DoBuild();
    w.missing_source.clear();
    if (dead) return;
    w.k.WriteFile(p, w.SourceContent(p), true);
    Note("source " + p + " is back");
    rr.stats.n["missing_source_builds"]++;
  }

  // The same for a source file that only a dyndep file names as an input of a needed statement:
  // with the information written into the manifest ninja refuses to build, so it must refuse here
  // too (C11; the twin comparison of the exit status decides).
  void DoMissingDyndepSource() {
    std::vector<std::string> cands;
    for (auto& p : EditableSources()) {
      bool named = false;
      for (const DyndepFile& f : w.sc.dyndeps) for (const DyndepEntry& e : f.entries)
        if (e.stmt >= 0 && e.stmt < (int)w.sc.stmts.size() && w.sc.stmts[e.stmt].alive && std::find(e.imp_ins.begin(), e.imp_ins.end(), p) != e.imp_ins.end()) named = true;
      if (named && w.k.Exists(p)) cands.push_back(p);
    }
    if (cands.empty()) return;
    std::string p = cands[H((uint32_t)cands.size())];
    w.k.Remove(p);
    Note("source " + p + " (named by a dyndep file) disappears");
    w.missing_source = p;
    force_targets = true; forced_targets.clear();
    DoBuild();
    w.missing_source.clear();
    if (dead) return;
    w.k.WriteFile(p, w.SourceContent(p), true);
    Note("source " + p + " is back");
    rr.stats.n["missing_dyndep_source_builds"]++;
  }

  // A statement whose restat attribute comes from a dyndep file: build everything; touch one of its
  // sources and build (it re-runs and leaves its output alone); then make the dyndep file's producer
  // re-run (the file is pending at the next scan) and build something downstream of the statement.
  // With the attribute written in the manifest nothing but the producer runs; the dyndep variant must
  // reach the same verdict once the file is loaded, whatever the order in which it re-scans.
  void DoDyndepRestatStir() {
    struct Cand { int p, c, d; std::string csrc, psrc; };
    std::vector<Cand> cands;
    auto source_of = [&](const Stmt& st) {
      for (auto& q : st.ins) if (w.sc.IsSource(q) && !w.sc.FindDyndep(q) && q != "gen.src" && w.k.Exists(q)) return q;
      return std::string();
    };
    for (const DyndepFile& dd : w.sc.dyndeps) {
      if (dd.producer < 0 || !w.sc.stmts[dd.producer].alive || w.sc.stmts[dd.producer].phony) continue;
      for (const DyndepEntry& e : dd.entries) {
        if (e.stmt < 0 || !e.restat || !w.sc.stmts[e.stmt].alive || w.sc.stmts[e.stmt].phony) continue;
        const Stmt& c = w.sc.stmts[e.stmt];
        std::string cs = source_of(c), ps = source_of(w.sc.stmts[dd.producer]);
        if (cs.empty() || ps.empty() || cs == ps) continue;
        for (const Stmt& d : w.sc.stmts) {
          if (!d.alive || d.phony || d.regen || d.id == c.id || d.outs.empty()) continue;
          bool uses = false;
          for (auto* l : {&d.ins, &d.imp_ins}) for (auto& q : *l) for (auto& o : c.outs) if (q == o) uses = true;
          // (what a dyndep file adds counts as well: in the second twin world it is written into imp_ins,
          // and the choice has to come out the same in both)
          for (const DyndepFile& d2 : w.sc.dyndeps) for (const DyndepEntry& e2 : d2.entries) if (e2.stmt == d.id) for (auto& q : e2.imp_ins) for (auto& o : c.outs) if (q == o) uses = true;
          if (uses) cands.push_back({dd.producer, c.id, d.id, cs, ps});
        }
      }
    }
    if (cands.empty()) return;
    Cand u = cands[H((uint32_t)cands.size())];
    Note("dyndep restat stir: consumer " + std::to_string(u.c) + ", producer " + std::to_string(u.p) + ", dependent " + std::to_string(u.d));
    force_targets = true; forced_targets.clear();
    DoBuild();
    if (dead) return;
    w.k.Touch(u.csrc, true); Note("touch " + u.csrc);
    force_targets = true; forced_targets.clear();
    DoBuild();
    if (dead) return;
    w.k.Touch(u.psrc, true); Note("touch " + u.psrc);
    force_targets = true; forced_targets = {w.sc.stmts[u.d].outs[0]};
    DoBuild();
    rr.stats.n["dyndep_restat_stir"]++;
  }

  void DoDeleteOutput() {
    std::vector<std::string> outs = AllOutputs();
    if (outs.empty()) return;
    std::string p = outs[H((uint32_t)outs.size())];
    if (w.k.Remove(p)) Note("delete " + p);
  }

  void DoDeleteDepfile() {
    std::vector<std::string> v;
    for (const Stmt& s : w.sc.stmts) if (s.alive && !s.depfile.empty() && w.k.Exists(s.depfile)) v.push_back(s.depfile);
    if (v.empty()) return;
    std::string p = v[H((uint32_t)v.size())];
    w.k.Remove(p);
    Note("delete depfile " + p);
  }

  void DoChangeCommand() {
    std::vector<int> v;
    for (const Stmt& s : w.sc.stmts) if (s.alive && !s.phony && !s.regen) v.push_back(s.id);
    if (v.empty()) return;
    Stmt& s = w.sc.stmts[v[H((uint32_t)v.size())]];
    if (s.generator || H(2) == 0) { s.cosmetic++; Note("change command (cosmetic) of " + std::to_string(s.id)); }
    else { s.key += 1000; Note("change command (semantic) of " + std::to_string(s.id)); }
    w.WriteManifest();
  }

  void DoChangeRsp() {
    std::vector<int> v;
    for (const Stmt& s : w.sc.stmts) if (s.alive && s.rsp && s.rsp_kind == 2 && !s.generator) v.push_back(s.id);
    if (v.empty()) return;
    Stmt& s = w.sc.stmts[v[H((uint32_t)v.size())]];
    s.rsp_literal += "x";
    Note("change rspfile_content of " + std::to_string(s.id));
    w.WriteManifest();
  }

  void DoDeleteLog() {
    uint32_t c = H(3);
    std::string d = w.sc.LogDir();
    if (c == 0 || c == 2) { if (w.k.Remove(d + ".ninja_log")) Note("delete .ninja_log"); }
    if (c == 1 || c == 2) { if (w.k.Remove(d + ".ninja_deps")) Note("delete .ninja_deps"); }
  }

  void DoRegen() {
    int g = -1;
    for (const Stmt& s : w.sc.stmts) if (s.alive && s.regen) g = s.id;
    if (g < 0) return;
    // the generator's input changes; what it will write is the pending scenario
    w.pending = w.has_pending ? w.pending : w.sc;
    std::vector<int> v;
    for (const Stmt& s : w.pending.stmts) if (s.alive && !s.phony && !s.regen && !s.generator) v.push_back(s.id);
    if (!v.empty()) {
      int pick = v[H((uint32_t)v.size())];
      // (when the generator declares sub.ninja as well: more often a change in that file alone)
      const Stmt& gs = w.pending.stmts[g];
      if (!gs.imp_outs.empty() && H(2) == 0) {
        std::vector<int> sub;
        for (int id : v) if (id >= (int)w.pending.stmts.size() / 2) sub.push_back(id);
        if (!sub.empty()) pick = sub[H((uint32_t)sub.size())];
      }
      Stmt& s = w.pending.stmts[pick];
      if (H(2)) s.cosmetic++; else s.key += 1000;
    }
    w.has_pending = true;
    w.version["gen.src"]++;
    w.k.WriteFile("gen.src", w.SourceContent("gen.src"), true);
    Note("regenerate manifest (gen.src edited)");
  }

  void Run() {
    GenParams gp = prof.gen;
    Scenario sc = GenerateScenario(tape, ST_SCEN, gp);
    w.tape = &tape;
    w.prof = &prof;
    w.viol = &rr.violations;
    w.stats = &rr.stats;
    w.label = "";
    w.k.coarse_clock = prof.coarse_clock_allowed && tape.Choice(ST_HIST, 2) == 1;
    w.Init(sc);
    if (twin_role == 2 && prof.twin_dyndep) ApplyInlinedDyndeps();
    if (twin_role == 2) w.label = "declared";
    Note(std::string(twin_role == 2 ? "=== second world (information written into the manifest)\n" : "") + "clock=" + (w.k.coarse_clock ? "coarse" : "fine"));
    Note("--- build.ninja\n" + sc.ManifestText() + (sc.subninja ? "--- sub.ninja\n" + sc.SubManifestText() : ""));
    for (const Stmt& s : sc.stmts) if (!s.hidden.empty()) { std::string h = "# statement " + std::to_string(s.id) + " may also read:"; for (auto& x : s.hidden) h += " " + x; Note(h); }
    if (!sc.cycle_note.empty()) Note("# " + sc.cycle_note);
    for (auto& d : sc.dyndeps) Note("--- " + d.path + (d.producer < 0 ? " (source)" : " (produced by " + std::to_string(d.producer) + ")") + "\n" + sc.DyndepText(d));
    {
      uint64_t x[3] = {(uint64_t)sc.stmts.size(), sc.features, (uint64_t)sc.sources.size()};
      rr.stats.sig = Hash64(x, sizeof x);
    }
    int nops = prof.min_ops + (int)H((uint32_t)(prof.max_ops - prof.min_ops + 1));
    bool has_regen = false;   // (a manifest with a generator statement gets regenerated more often than once in forty steps)
    for (const Stmt& s : sc.stmts) if (s.regen) has_regen = true;
    for (int i = 0; i < nops && !dead; i++) {
      if (i == 0 && H(8) != 0) { DoBuild(); continue; }
      int ws[] = {prof.w_build, prof.w_edit, prof.w_touch, prof.w_del_out, prof.w_change_cmd, prof.w_change_rsp,
                  has_regen ? prof.w_regen * 4 : prof.w_regen, prof.w_del_log, prof.w_del_depfile, prof.w_clean, prof.w_cleandead, prof.w_tool_ro,
                  prof.w_dry, prof.w_manifest_edit, prof.w_edit_includes, prof.w_empty_source, prof.w_inflate_log, prof.w_include_churn, prof.w_block_dir, invalid_dyndep_run ? 6 : 0, prof.damage ? 8 : 0, prof.subset_then_touch ? 3 : 0, prof.w_restat_tool, prof.w_missing_source, prof.w_dyndep_stir, prof.w_missing_dyndep_source, prof.w_dyndep_restat_stir};
      int total = 0;
      for (int x : ws) total += x;
      int c = (int)H((uint32_t)total), op = 0;
      while (c >= ws[op]) { c -= ws[op]; op++; }
      if (forced_op >= 0) { op = forced_op; forced_op = -1; }
      switch (op) {
        case 0: DoBuild(); break;
        case 1: DoEdit(true); break;
        case 2: DoEdit(false); break;
        case 3: DoDeleteOutput(); break;
        case 4: DoChangeCommand(); break;
        case 5: DoChangeRsp(); break;
        case 6: DoRegen(); break;
        case 7: DoDeleteLog(); break;
        case 8: DoDeleteDepfile(); break;
        case 9: DoClean(); break;
        case 10: DoCleanDead(); break;
        case 11: DoReadOnlyTool(); break;
        case 12: DoDryRun(); break;
        case 13: DoManifestEdit(); break;
        case 14: DoEditIncludes(); break;
        case 15: DoEmptySource(); break;
        case 16: DoInflateLog(); break;
        case 17: DoIncludeChurn(); break;
        case 18: DoBlockDir(); break;
        case 19: DoInvalidDyndep(); break;
        case 20: DoDamage(); break;
        case 21: DoSubsetThenTouch(); break;
        case 22: DoLogTool(); break;
        case 23: DoMissingSource(); break;
        case 24: DoDyndepStir(); break;
        case 25: DoMissingDyndepSource(); break;
        case 26: DoDyndepRestatStir(); break;
      }
    }
    // histories end with a build so that every change is exercised
    DoBuild();
  }
};

}  // namespace

RunResult RunOne(Tape& tape, const Profile& prof) {
  RunResult rr;
  tape.Reset();
  if (!prof.twin_deps && !prof.twin_dyndep) {
    Driver d(tape, prof, rr);
    // some profiles let producers write damaged dyndep files in a third of their runs:
    // a load error is the one way a finished command makes the whole build stop at once
    if (prof.invalid_dyndep && tape.Choice(ST_SCEN + 50, 3) == 0) d.invalid_dyndep_run = true;
    d.Run();
    return rr;
  }
  // C11: a third of the runs are single-world runs with damaged dyndep files
  if (prof.twin_dyndep && tape.Choice(ST_SCEN + 50, 3) == 0) {
    Driver d(tape, prof, rr);
    d.invalid_dyndep_run = true;
    d.Run();
    return rr;
  }
  // Metamorphic pair: the same tape drives both worlds through the same history.
  TwinRecords rec;
  {
    Driver d(tape, prof, rr);
    d.twin_role = 1;
    d.twin = &rec;
    d.Run();
  }
  tape.pos.clear();   // re-read the recorded choices from the start
  {
    RunResult r2;
    Driver d(tape, prof, r2);
    d.twin_role = 2;
    d.twin = &rec;
    d.Run();
    for (auto& v : r2.violations) {
      bool dup = false;
      for (auto& x : rr.violations) if (x.prop == v.prop && x.cls == v.cls) dup = true;
      if (!dup) rr.violations.push_back(v);
    }
    for (auto& kv : r2.stats.n) rr.stats.n[kv.first] += kv.second;
    for (auto& kv : r2.stats.nontrivial) if (kv.second) rr.stats.nontrivial[kv.first] = true;
    rr.stats.invocations += r2.stats.invocations;
    rr.stats.spawns += r2.stats.spawns;
    rr.stats.sim_ns += r2.stats.sim_ns;
    rr.stats.full_hash = Hash64(&r2.stats.full_hash, 8, rr.stats.full_hash);
    rr.decoded += r2.decoded;
  }
  return rr;
}

}  // namespace sim
