// History driver: generates a scenario, then a sequence of operations
// (builds with faults, edits, deletions, manifest changes, tools), and runs
// the oracles after each invocation.
#include "world.h"

#include <signal.h>
#include <stdio.h>
#include <string.h>
#include <stdlib.h>
#include <algorithm>

namespace sim {

enum { ST_SCEN = 0, ST_HIST = 1, ST_INV0 = 100, ST_FORK0 = 5000 };

Profile GetProfile(const std::string& name, bool thorough) {
  Profile p;
  p.name = name;
  p.gen.max_stmts = thorough ? 24 : 10;
  p.gen.max_sources = thorough ? 8 : 5;
  if (name == "C01" || name == "C02" || name == "C03" || name == "C04") {
    p.pm_cmd_fail = 40; p.pm_interrupt = 60; p.pm_crash = 40; p.pm_editor = 80;
    p.w_manifest_edit = 1; p.pm_tty = 150;
  } else if (name == "C05") {
    p.pm_cmd_fail = 220; p.pm_cmd_signal = 60; p.w_edit = 4; p.pm_io_error = 0;
    p.gen.features &= ~F_REGEN;
  } else if (name == "C06") {
    p.pm_cmd_fail = 80; p.pm_interrupt = 80; p.pm_jobserver = 500; p.pm_io_error = 120; p.pm_load = 100;
    p.gen.features |= F_POOLS | F_CONSOLE;
  } else if (name == "C07") {
    p.pm_interrupt = 350; p.pm_crash = 300; p.pm_torn = 150; p.pm_cmd_fail = 30;
  } else if (name == "C16") {
    p.pm_cmd_fail = 150; p.gen.features |= F_RSP | F_HOSTILE_NAMES;
  } else if (name == "C20") {
    p.pm_cmd_fail = 120; p.pm_tty = 400; p.hostile_output = true; p.gen.features |= F_CONSOLE;
  } else if (name == "C13") {
    p.pm_cmd_fail = 80; p.pm_interrupt = 50; p.pm_crash = 100; p.pm_torn = 100; p.pm_io_error = 150; p.damage = true;
    p.pm_tty = 300; p.hostile_output = true;
  }
  return p;
}

namespace {

struct Driver {
  Tape& tape;
  const Profile& prof;
  RunResult& rr;
  World w;
  int inv_index = 0;
  int fork_index = 0;
  int builds_done = 0;
  bool dead = false;
  std::string& log;

  Driver(Tape& t, const Profile& p, RunResult& r) : tape(t), prof(p), rr(r), log(r.decoded) {}
  uint32_t H(uint32_t n) { return tape.Choice(ST_HIST, n); }
  // per-mille coin; tape value 0 (shrunk) = the fault does not happen
  bool Pm(int pm) { return (int)H(1000) >= 1000 - pm; }

  void Note(const std::string& s) { log += s + "\n"; }

  std::vector<std::string> AllOutputs() const {
    std::vector<std::string> v;
    for (const Stmt& s : w.sc.stmts) if (s.alive && !s.regen) for (auto& o : w.sc.DeclaredOuts(s.id)) v.push_back(o);
    return v;
  }
  std::vector<std::string> EditableSources() const {
    std::vector<std::string> v;
    for (auto& p : w.sc.sources) if (!w.sc.FindDyndep(p) && p != "gen.src") v.push_back(p);
    return v;
  }

  InvPlan MakeBuildPlan() {
    InvPlan p;
    p.stream = ST_INV0 + inv_index++;
    if (H(10) < 4) {
      std::vector<std::string> outs = AllOutputs();
      int n = 1 + (int)H(2);
      for (int i = 0; i < n && !outs.empty(); i++) {
        std::string t = outs[H((uint32_t)outs.size())];
        if (std::find(p.targets.begin(), p.targets.end(), t) == p.targets.end()) p.targets.push_back(t);
      }
    }
    static const int kJ[] = {1, 2, 3, 4, 8, 0};
    p.j = kJ[H(6)];
    p.k = 1;
    if (prof.pm_cmd_fail > 100) { static const int kK[] = {1, 1, 2, 3, 0}; p.k = kK[H(5)]; }
    else if (H(8) == 0) p.k = 0;
    p.verbose = H(6) == 0;
    p.quiet = !p.verbose && H(12) == 0;
    p.explain = H(10) == 0;
    p.keeprsp = H(12) == 0;
    p.keepdepfile = H(12) == 0;
    p.tty = Pm(prof.pm_tty);
    p.cols = 20 + (int)H(100);
    p.status_mode = (int)H(3);
    if (Pm(prof.pm_load)) p.l = 1.0 + H(4);
    if (Pm(prof.pm_jobserver)) {
      p.jobserver = true; p.j = -1; p.js_tokens = (int)H(4); p.js_peers = (int)H(3); p.nproc = 1 + (int)H(4);
    }
    // command failures
    for (const Stmt& s : w.sc.stmts) {
      if (!s.alive || s.phony || s.regen) continue;
      int c = 999 - (int)H(1000);
      if (c < prof.pm_cmd_fail) {
        int code = 1 + (int)H(255);
        if (code == 130) code = 131;
        p.fail[s.id] = std::make_pair(code << 8, (int)H(3));
      } else if (c < prof.pm_cmd_fail + prof.pm_cmd_signal) {
        static const int kSig[] = {SIGSEGV, SIGKILL, SIGABRT};
        p.fail[s.id] = std::make_pair(kSig[H(3)], (int)H(3));
      }
    }
    p.editor = Pm(prof.pm_editor);
    if (Pm(prof.pm_interrupt)) {
      static const int kSig[] = {SIGINT, SIGTERM, SIGHUP};
      p.on_signal = kSig[H(3)] * 100 + (int)H(3);   // signal*100 + child reaction
    }
    if (prof.buggify && H(2) == 0) {
      p.fp.pm_eintr = 0; (void)H(3);  /* EINTR from read/waitpid cannot happen: ninja blocks its handled signals outside ppoll */ p.fp.pm_short_read = (int)H(3) * 100;
      p.fp.pm_spurious_wake = (int)H(3) * 30; p.fp.pm_eagain_token = (int)H(3) * 100;
    }
    return p;
  }

  std::string PlanText(const InvPlan& p) {
    std::string s = "build";
    for (auto& t : p.targets) s += " " + t;
    char b[160];
    snprintf(b, sizeof b, " [-j%d -k%d%s%s%s%s tty=%d status=%d js=%d/%d editor=%d intr=%d]", p.j, p.k, p.dry ? " -n" : "",
             p.verbose ? " -v" : "", p.quiet ? " --quiet" : "", p.l > 0 ? " -l" : "", p.tty, p.status_mode, p.jobserver, p.js_tokens,
             p.editor, p.on_signal);
    s += b;
    for (auto& f : p.fail) { snprintf(b, sizeof b, " fail(%d:st=%d,mode=%d)", f.first, f.second.first, f.second.second); s += b; }
    if (p.fp.crash_at >= 0) { snprintf(b, sizeof b, " crash@%ld", (long)p.fp.crash_at); s += b; }
    if (p.fp.torn_at >= 0) { snprintf(b, sizeof b, " torn@%ld", (long)p.fp.torn_at); s += b; }
    for (auto& sg : p.fp.signals) { snprintf(b, sizeof b, " sig%d@%ld", sg.second, (long)sg.first); s += b; }
    for (auto& ie : p.fp.io_errors) { snprintf(b, sizeof b, " ioerr@%ld", (long)ie.first); s += b; }
    return s;
  }

  std::string ResultText(const InvRecord& r) {
    char b[200];
    snprintf(b, sizeof b, "  -> end=%d exit=%d spawns=%zu syscalls=%ld epochs=%d %s", (int)r.res.end, r.res.exit_code, r.spawns.size(),
             (long)r.res.nsyscalls, r.epochs, r.res.end_detail.c_str());
    std::string s = b;
    s += " ran=[";
    for (auto& x : r.spawns) { s += std::to_string(x.stmt); if (x.reap_status > 0) s += "!"; s += " "; }
    s += "]";
    for (auto& f : r.res.fired) s += " " + f.first + "x" + std::to_string(f.second);
    return s;
  }

  // Convergence (C02): the same build again, twice, in a forked world.
  void CheckConvergence(const InvRecord& r) {
    if (!r.ok() || !r.quiet() || r.plan.dry || !r.plan.tool.empty()) return;
    // a record appended behind a crash-torn log tail is merged with it and may
    // look out of date once more (C08 allows exactly that)
    if (r.log_torn_tail_before) return;
    // documented always-dirty case: an input-less phony whose file is missing
    std::vector<std::string> targets = w.EffectiveTargets(r.plan);
    std::set<int> cl = w.Closure(targets, true);
    for (int id : cl) {
      const Stmt& s = w.sc.stmts[id];
      if (s.phony && s.ins.empty() && s.imp_ins.empty() && s.oo_ins.empty() && s.validations.empty() && !w.k.Exists(s.outs[0])) return;
    }
    World f = w.Fork();
    f.label = "convergence";
    for (int round = 0; round < 2; round++) {
      InvPlan p = r.plan;
      p.fail.clear(); p.editor = false; p.on_signal = 0; p.fp = FaultPlan();
      p.jobserver = r.plan.jobserver;
      p.stream = ST_FORK0 + fork_index++;
      std::map<std::string, std::pair<uint64_t, int64_t>> before;
      for (auto& kv : f.k.fs.nodes) if (kv.second->kind == Inode::kFile) before[kv.first] = std::make_pair(Hash64(kv.second->data, 7), kv.second->mtime);
      InvRecord r2 = f.RunInvocation(p);
      rr.stats.n["convergence_reruns"]++;
      if (!r2.spawns.empty()) {
        std::string ids;
        for (auto& x : r2.spawns) ids += std::to_string(x.stmt) + " ";
        w.Report("C02", "not_converged", "immediately after a successful build, run " + std::to_string(round + 1) + " of the same build started statements " + ids);
        return;
      }
      if (r2.res.end != ProcResult::kExit || r2.res.exit_code != 0) {
        w.Report("C02", "not_converged", "re-running a successful build exited " + std::to_string(r2.res.exit_code) + " " + r2.res.end_detail + " stderr=" + r2.res.err.substr(0, 100));
        return;
      }
      if (!p.quiet && r2.res.out.find("ninja: no work to do.") == std::string::npos) {
        w.Report("C02", "not_converged", "re-running a successful build did not report 'no work to do': " + r2.res.out.substr(0, 100));
        return;
      }
      for (auto& kv : f.k.fs.nodes) {
        if (kv.second->kind != Inode::kFile) continue;
        auto b = before.find(kv.first);
        bool is_log = kv.first.find(".ninja_log") != std::string::npos || kv.first.find(".ninja_deps") != std::string::npos || kv.first.find("js.fifo") != std::string::npos;
        if (b == before.end()) {
          if (!is_log) { w.Report("C02", "not_converged", "a no-op build created " + kv.first); return; }
        } else if (b->second.first != Hash64(kv.second->data, 7) && !is_log) {
          w.Report("C02", "not_converged", "a no-op build changed " + kv.first);
          return;
        }
      }
    }
    rr.stats.nontrivial["C02"] = true;
  }

  // C05: with failures left in the budget, everything independent must have
  // run; and a failed command is retried while the cause persists.
  void CheckFailureFollowUp(const InvRecord& r) {
    if (r.res.end != ProcResult::kExit || r.res.exit_code == 0 || r.interrupted || r.external_edit || r.plan.dry) return;
    for (auto& kv : r.res.fired) if (kv.first != "crash" && kv.first.compare(0, 3, "io_") == 0) return;
    std::set<int> failed;
    for (auto& x : r.spawns) if (x.reap_seq && x.reap_status != 0) failed.insert(x.stmt);
    if (failed.empty() || r.epochs > 1) return;
    for (auto& x : r.spawns) if (x.reap_status > 0 && (x.reap_status & 0x7f) != 0) {
      int sg = x.reap_status & 0x7f;
      if (sg == SIGINT || sg == SIGTERM || sg == SIGHUP) return;
    }
    bool budget_left = r.plan.k == 0 || (int)failed.size() < r.plan.k;
    World f = w.Fork();
    f.label = "failure-followup";
    InvPlan p = r.plan;
    p.editor = false; p.on_signal = 0; p.fp = FaultPlan();
    p.stream = ST_FORK0 + fork_index++;
    InvRecord r2 = f.RunInvocation(p);
    rr.stats.n["failure_followups"]++;
    std::set<int> ran2;
    for (auto& x : r2.spawns) ran2.insert(x.stmt);
    // retried: a failed statement whose own prerequisites did not fail runs again
    std::set<int> failed2;
    for (auto& x : r2.spawns) if (x.reap_status != 0) failed2.insert(x.stmt);
    for (int fid : failed) {
      bool blocked = false;
      for (int q : w.StmtClosure(fid)) if (failed.count(q) || failed2.count(q)) blocked = true;
      if (!blocked && !ran2.count(fid) && r2.res.end == ProcResult::kExit) {
        // with -k1 another failure may have stopped the second build before it got there
        bool stopped_early = false;
        int nf2 = 0;
        for (auto& x : r2.spawns) if (x.reap_status != 0) nf2++;
        if (r.plan.k > 0 && nf2 >= r.plan.k) stopped_early = true;
        if (!stopped_early)
          w.Report("C05", "failure_logged", "statement " + std::to_string(fid) + " failed, yet the next build did not retry it");
      }
    }
    if (budget_left) {
      bool always_dirty = false;
      for (const Stmt& s : w.sc.stmts) if (s.alive && s.phony && s.ins.empty() && s.imp_ins.empty() && s.oo_ins.empty()) always_dirty = true;
      if (!always_dirty)
        for (auto& x : r2.spawns) {
          if (failed.count(x.stmt)) continue;
          bool dep = false;
          for (int q : x.closure) if (failed.count(q)) dep = true;
          if (!dep)
            w.Report("C05", "missing_command", "with failures left in the -k budget the build stopped without running statement " + std::to_string(x.stmt) + ", which depends on no failed command (the next build ran it)");
        }
    }
  }

  // Kill / torn write / failing syscall: the position is chosen from a
  // fault-free probe of the same invocation in a forked world.
  void PlanProcessFaults(InvPlan& p) {
    bool want_crash = Pm(prof.pm_crash), want_torn = Pm(prof.pm_torn), want_io = Pm(prof.pm_io_error);
    if (!want_crash && !want_torn && !want_io) return;
    size_t mark = tape.Mark(p.stream);
    World f = w.Fork();
    f.label = "probe";
    RunStats scratch;
    std::vector<Violation> vs;
    f.viol = &vs;
    f.stats = &scratch;
    InvPlan pp = p;
    pp.record_sys = true;
    InvRecord pr = f.RunInvocation(pp);
    tape.Rewind(p.stream, mark);
    const auto& kinds = pr.res.sys_kinds;
    if (kinds.empty()) return;
    auto pick = [&](const char* set) -> int64_t {
      std::vector<int64_t> c;
      for (auto& kv : kinds) if (!set || strchr(set, kv.second)) c.push_back(kv.first);
      if (c.empty()) return -1;
      return c[H((uint32_t)c.size())];
    };
    if (want_torn) {
      int64_t k = pick("w");
      if (k >= 0) { p.fp.torn_at = k; p.fp.torn_keep = H(1 << 20); }
    } else if (want_crash) {
      // half of the kills land in the persistence steps (log writes, unlink, rename, truncate)
      p.fp.crash_at = H(2) ? pick("wnutcO") : pick(nullptr);
      if (p.fp.crash_at < 0) p.fp.crash_at = pick(nullptr);
    }
    if (want_io) {
      int64_t k = pick("sOmuntPSwrh");
      if (k >= 0) p.fp.io_errors[k] = 5;
    }
    p.fp.orphans_finish = H(2) == 1;
    if (p.fp.crash_at >= 0 || p.fp.torn_at >= 0) {
      // C07 assumes commands replace their outputs atomically when the whole
      // tree is killed: no half-written outputs in an invocation that is killed
      for (auto& f : p.fail) f.second.second = 0;
      if (p.on_signal % 100 == 1) p.on_signal -= 1;
    }
  }

  // C07: after an interrupted or killed build the next one must succeed, be
  // clean-equal, and redo what was not durably recorded.
  void CheckRecovery(const InvRecord& r) {
    bool crashed = r.res.end == ProcResult::kCrashed;
    bool intr = r.interrupted && (r.res.out.find("interrupted by user") != std::string::npos || r.res.err.find("interrupted by user") != std::string::npos);
    if (!crashed && !intr) return;
    if (r.plan.dry || !r.plan.tool.empty() || r.external_edit) return;
    for (auto& kv : r.res.fired) if (kv.first.compare(0, 9, "io_error_") == 0) return;
    World f = w.Fork();
    f.label = "recovery";
    InvPlan p;
    p.stream = ST_FORK0 + fork_index++;
    p.j = 1 + (int)tape.Choice(p.stream, 4);
    p.k = 0;
    InvRecord r2 = f.RunInvocation(p);
    rr.stats.n["recovery_builds"]++;
    Note("  [recovery build]" + ResultText(r2));
    if (getenv("SIM_SHOW_OUTPUT")) Note("  stdout: " + r2.res.out + "\n  stderr: " + r2.res.err);
    rr.stats.nontrivial["C07"] = true;
    if (!r2.ok()) {
      bool regen_hit = false;
      for (auto& x : r.spawns) if (w.sc.stmts[x.stmt].regen && (x.killed || !x.reap_seq)) regen_hit = true;
      if (regen_hit && intr && r2.res.err.find("loading 'build.ninja'") != std::string::npos) {
        w.Report("C07", "regen_manifest_deleted", "the interrupted ninja deleted build.ninja, which its manifest generator had just rewritten; the next invocation cannot start: " + r2.res.err.substr(0, 120));
        return;
      }
      w.Report("C07", "recovery_failed", "the build after " + std::string(crashed ? "a killed" : "an interrupted") + " ninja exited " + std::to_string(r2.res.exit_code) + " " + r2.res.end_detail + ": " + r2.res.err.substr(0, 200) + r2.res.out.substr(0, 200));
      return;
    }
    // only the documented recovery messages may appear
    std::string e = r2.res.err;
    size_t pos = 0;
    while ((pos = e.find("ninja: ", pos)) != std::string::npos) {
      size_t nl = e.find('\n', pos);
      std::string line = e.substr(pos, nl == std::string::npos ? std::string::npos : nl - pos);
      pos += 7;
      if (line.find("ninja: warning: premature end of file; recovering") == 0) continue;
      if (line.find("starting over") != std::string::npos) continue;
      if (line.find("ninja explain:") == 0) continue;
      if (line.find("ninja: error") == 0 || line.find("ninja: warning") == 0 || line.find("ninja: fatal") == 0)
        w.Report("C07", "recovery_failed", "the build after a killed/interrupted ninja printed: " + line);
    }
    f.viol = w.viol;
    f.CheckContent(r2, "C07");
    // redone rather than trusted
    std::set<int> ran2;
    for (auto& x : r2.spawns) ran2.insert(x.stmt);
    std::set<int> needed = f.Closure(f.EffectiveTargets(p), true);
    for (auto& x : r.spawns) {
      const Stmt& s = w.sc.stmts[x.stmt];
      if (s.generator || s.regen || r.epochs > 1 || !needed.count(x.stmt)) continue;
      // behind a torn tail left by an earlier crash a complete record is merged
      // with the fragment; whether it counts is C08's business, not this check's
      if (r.log_torn_tail_before) continue;
      bool recorded = true;
      for (auto& o : x.outs) {
        auto a = r.log_after.last.find(o), b = r.log_before.last.find(o);
        if (a == r.log_after.last.end()) { recorded = false; break; }
        if (b != r.log_before.last.end() && b->second.mtime == a->second.mtime && b->second.hash == a->second.hash && b->second.end == a->second.end && b->second.start == a->second.start) { recorded = false; break; }
      }
      if ((s.deps_kind == 2 || s.deps_kind == 3) && recorded) {
        auto a = r.deps_after.last.find(x.outs[0]), b = r.deps_before.last.find(x.outs[0]);
        if (a == r.deps_after.last.end()) recorded = false;
        else if (b != r.deps_before.last.end() && b->second.mtime == a->second.mtime && b->second.deps == a->second.deps) {
          // an unchanged deps record is not written again: only missing counts
        }
      }
      // K11 pattern: the statement was out of date only because an output was
      // missing; the unrecorded run re-created it and the old record still matches
      bool was_missing = false, old_record_matches = true;
      for (auto& o : x.outs) {
        if (!x.pre_outs.count(o)) was_missing = true;
        auto b = r.log_before.last.find(o);
        if (b == r.log_before.last.end() || b->second.hash != NinjaCommandHash(w.sc.CommandLine(s) + (w.sc.RspContent(s).empty() ? "" : ";rspfile=" + w.sc.RspContent(s)))) old_record_matches = false;
      }
      if (!recorded && !ran2.count(x.stmt) && was_missing && old_record_matches) {
        w.Report("C07", "trusted_recreated_output", "statement " + std::to_string(x.stmt) + " was out of date only because an output was missing; the " + (crashed ? "killed" : "interrupted") + " ninja's command re-created it without a log record and the next build trusted it");
        continue;
      }
      // (whether an older, still adequate record justifies trusting the outputs
      // is the dirtiness question itself; wrongly trusted *content* is caught by
      // the clean-build comparison above)
    }
  }

  void DoBuild() {
    // (K15 can delete the manifest; everything after that only repeats it)
    if (!w.k.Exists("build.ninja")) { dead = true; return; }
    InvPlan p = MakeBuildPlan();
    PlanProcessFaults(p);
    Note(PlanText(p));
    InvRecord r = w.RunInvocation(p);
    Note(ResultText(r));
    if (getenv("SIM_SHOW_OUTPUT")) Note("  stdout: " + r.res.out + "\n  stderr: " + r.res.err);
    if (getenv("SIM_DUMP_LOG")) { std::string lg; w.k.ReadFile(w.sc.LogDir() + ".ninja_log", &lg); Note("  .ninja_log:\n" + lg); }
    w.CheckAll(r);
    {
      int ncmd = 0;
      for (const Stmt& s : w.sc.stmts) if (s.alive && !s.phony) ncmd++;
      // incremental: something was rebuilt and something was left alone
      if (r.ok() && builds_done > 0 && !r.spawns.empty() && (int)r.spawns.size() < ncmd) {
        rr.stats.nontrivial["C01"] = true;
        rr.stats.nontrivial["C03"] = true;
      }
      builds_done++;
    }
    if (rr.stats.n["ordered_pairs"] > 0) rr.stats.nontrivial["C04"] = true;
    if (rr.stats.n["j_full"] + rr.stats.n["pool_full"] + rr.stats.n["tokens_full"] > 0) rr.stats.nontrivial["C06"] = true;
    if (prof.check_convergence) CheckConvergence(r);
    CheckFailureFollowUp(r);
    CheckRecovery(r);
  }

  void DoEdit(bool content) {
    std::vector<std::string> s = EditableSources();
    if (s.empty()) return;
    std::string p = s[H((uint32_t)s.size())];
    if (content) { w.version[p]++; w.k.WriteFile(p, w.SourceContent(p), true); Note("edit " + p); }
    else { w.k.Touch(p, true); Note("touch " + p); }
  }

  void DoDeleteOutput() {
    std::vector<std::string> outs = AllOutputs();
    if (outs.empty()) return;
    std::string p = outs[H((uint32_t)outs.size())];
    if (w.k.Remove(p)) Note("delete " + p);
  }

  void DoDeleteDepfile() {
    std::vector<std::string> v;
    for (const Stmt& s : w.sc.stmts) if (s.alive && !s.depfile.empty() && w.k.Exists(s.depfile)) v.push_back(s.depfile);
    if (v.empty()) return;
    std::string p = v[H((uint32_t)v.size())];
    w.k.Remove(p);
    Note("delete depfile " + p);
  }

  void DoChangeCommand() {
    std::vector<int> v;
    for (const Stmt& s : w.sc.stmts) if (s.alive && !s.phony && !s.regen) v.push_back(s.id);
    if (v.empty()) return;
    Stmt& s = w.sc.stmts[v[H((uint32_t)v.size())]];
    if (s.generator || H(2) == 0) { s.cosmetic++; Note("change command (cosmetic) of " + std::to_string(s.id)); }
    else { s.key += 1000; Note("change command (semantic) of " + std::to_string(s.id)); }
    w.WriteManifest();
  }

  void DoChangeRsp() {
    std::vector<int> v;
    for (const Stmt& s : w.sc.stmts) if (s.alive && s.rsp && s.rsp_kind == 2 && !s.generator) v.push_back(s.id);
    if (v.empty()) return;
    Stmt& s = w.sc.stmts[v[H((uint32_t)v.size())]];
    s.rsp_literal += "x";
    Note("change rspfile_content of " + std::to_string(s.id));
    w.WriteManifest();
  }

  void DoDeleteLog() {
    uint32_t c = H(3);
    std::string d = w.sc.LogDir();
    if (c == 0 || c == 2) { if (w.k.Remove(d + ".ninja_log")) Note("delete .ninja_log"); }
    if (c == 1 || c == 2) { if (w.k.Remove(d + ".ninja_deps")) Note("delete .ninja_deps"); }
  }

  void DoRegen() {
    int g = -1;
    for (const Stmt& s : w.sc.stmts) if (s.alive && s.regen) g = s.id;
    if (g < 0) return;
    // the generator's input changes; what it will write is the pending scenario
    w.pending = w.has_pending ? w.pending : w.sc;
    std::vector<int> v;
    for (const Stmt& s : w.pending.stmts) if (s.alive && !s.phony && !s.regen && !s.generator) v.push_back(s.id);
    if (!v.empty()) { Stmt& s = w.pending.stmts[v[H((uint32_t)v.size())]]; if (H(2)) s.cosmetic++; else s.key += 1000; }
    w.has_pending = true;
    w.version["gen.src"]++;
    w.k.WriteFile("gen.src", w.SourceContent("gen.src"), true);
    Note("regenerate manifest (gen.src edited)");
  }

  void Run() {
    GenParams gp = prof.gen;
    Scenario sc = GenerateScenario(tape, ST_SCEN, gp);
    w.tape = &tape;
    w.prof = &prof;
    w.viol = &rr.violations;
    w.stats = &rr.stats;
    w.label = "";
    w.k.coarse_clock = prof.coarse_clock_allowed && tape.Choice(ST_HIST, 2) == 1;
    w.Init(sc);
    Note(std::string("clock=") + (w.k.coarse_clock ? "coarse" : "fine"));
    Note("--- build.ninja\n" + sc.ManifestText() + (sc.subninja ? "--- sub.ninja\n" + sc.SubManifestText() : ""));
    for (const Stmt& s : sc.stmts) if (!s.hidden.empty()) { std::string h = "# statement " + std::to_string(s.id) + " may also read:"; for (auto& x : s.hidden) h += " " + x; Note(h); }
    for (auto& d : sc.dyndeps) Note("--- " + d.path + (d.producer < 0 ? " (source)" : " (produced by " + std::to_string(d.producer) + ")") + "\n" + sc.DyndepText(d));
    {
      uint64_t x[3] = {(uint64_t)sc.stmts.size(), sc.features, (uint64_t)sc.sources.size()};
      rr.stats.sig = Hash64(x, sizeof x);
    }
    int nops = prof.min_ops + (int)H((uint32_t)(prof.max_ops - prof.min_ops + 1));
    for (int i = 0; i < nops && !dead; i++) {
      if (i == 0 && H(8) != 0) { DoBuild(); continue; }
      int ws[] = {prof.w_build, prof.w_edit, prof.w_touch, prof.w_del_out, prof.w_change_cmd, prof.w_change_rsp,
                  prof.w_regen, prof.w_del_log, prof.w_del_depfile};
      int total = 0;
      for (int x : ws) total += x;
      int c = (int)H((uint32_t)total), op = 0;
      while (c >= ws[op]) { c -= ws[op]; op++; }
      switch (op) {
        case 0: DoBuild(); break;
        case 1: DoEdit(true); break;
        case 2: DoEdit(false); break;
        case 3: DoDeleteOutput(); break;
        case 4: DoChangeCommand(); break;
        case 5: DoChangeRsp(); break;
        case 6: DoRegen(); break;
        case 7: DoDeleteLog(); break;
        case 8: DoDeleteDepfile(); break;
      }
    }
    // histories end with a build so that every change is exercised
    DoBuild();
  }
};

}  // namespace

RunResult RunOne(Tape& tape, const Profile& prof) {
  RunResult rr;
  tape.Reset();
  Driver d(tape, prof, rr);
  d.Run();
  return rr;
}

}  // namespace sim
