// Fidelity cross-check of the stubs (DESIGN section 11): the same scenario and
// the same history are executed (a) in the simulation and (b) for real - the
// same ninja objects linked without the wrappers, a real temporary directory,
// and this binary as the `sim` command - and must agree on which commands ran in
// which order, on every file's content and on the meaning of both logs.
#include <dirent.h>
#include <errno.h>
#include <stdio.h>
#include <stdlib.h>
#include <string.h>
#include <sys/stat.h>
#include <sys/wait.h>
#include <unistd.h>
#include <algorithm>
#include <string>
#include <vector>
#include "world.h"

namespace sim {

// ---------------------------------------------------------------- scenario <-> text
static const char US = '\x1f', RS = '\x1e';
static std::string JoinV(const std::vector<std::string>& v) { std::string s; for (auto& x : v) { s += x; s += RS; } return s; }
static std::vector<std::string> SplitV(const std::string& s, char sep) {
  std::vector<std::string> v; size_t i = 0;
  while (i < s.size()) { size_t j = s.find(sep, i); if (j == std::string::npos) j = s.size(); v.push_back(s.substr(i, j - i)); i = j + 1; }
  return v;
}
std::string SerializeScenario(const Scenario& sc) {
  std::string o = "SRC" + std::string(1, US) + JoinV(sc.sources) + "\n";
  for (const Stmt& s : sc.stmts) {
    std::vector<std::string> f = {std::to_string(s.id), s.phony ? "1" : "0", JoinV(s.outs), JoinV(s.imp_outs), JoinV(s.ins), JoinV(s.imp_ins),
                                  JoinV(s.oo_ins), JoinV(s.hidden), s.restat ? "1" : "0", std::to_string(s.deps_kind), s.depfile, s.rsp ? "1" : "0",
                                  s.rsp_path, std::to_string(s.rsp_kind), s.rsp_literal, std::to_string(s.key), s.alive ? "1" : "0"};
    std::string line = "STMT";
    for (auto& x : f) { line += US; line += x; }
    o += line + "\n";
  }
  return o;
}
Scenario DeserializeScenario(const std::string& text) {
  Scenario sc;
  for (auto& line : SplitV(text, '\n')) {
    std::vector<std::string> f = SplitV(line, US);
    if (f.empty()) continue;
    // SplitV drops a trailing empty field: pad
    if (f[0] == "SRC") { if (f.size() > 1) sc.sources = SplitV(f[1], RS); continue; }
    if (f[0] != "STMT") continue;
    f.resize(18);
    Stmt s;
    s.id = atoi(f[1].c_str()); s.phony = f[2] == "1";
    s.outs = SplitV(f[3], RS); s.imp_outs = SplitV(f[4], RS); s.ins = SplitV(f[5], RS); s.imp_ins = SplitV(f[6], RS);
    s.oo_ins = SplitV(f[7], RS); s.hidden = SplitV(f[8], RS); s.restat = f[9] == "1"; s.deps_kind = atoi(f[10].c_str());
    s.depfile = f[11]; s.rsp = f[12] == "1"; s.rsp_path = f[13]; s.rsp_kind = atoi(f[14].c_str()); s.rsp_literal = f[15];
    s.key = atoi(f[16].c_str()); s.alive = f[17] == "1";
    sc.stmts.push_back(s);
  }
  return sc;
}

static bool ReadReal(const std::string& p, std::string* out) {
  FILE* f = fopen(p.c_str(), "rb");
  if (!f) return false;
  out->clear();
  char buf[65536]; size_t n;
  while ((n = fread(buf, 1, sizeof buf, f)) > 0) out->append(buf, n);
  fclose(f);
  return true;
}
static void MkdirsFor(const std::string& p) {
  for (size_t i = 1; i < p.size(); i++) if (p[i] == '/') mkdir(p.substr(0, i).c_str(), 0777);
}
static void WriteReal(const std::string& p, const std::string& data) {
  MkdirsFor(p);
  FILE* f = fopen(p.c_str(), "wb");
  if (!f) return;
  fwrite(data.data(), 1, data.size(), f);
  fclose(f);
}

// `sim <id> ...` executed for real: same semantics as World::OnSpawn's effect.
int RealChildMain(int argc, char** argv) {
  if (argc < 4) return 2;
  std::string text;
  if (!ReadReal(argv[2], &text)) return 2;
  Scenario sc = DeserializeScenario(text);
  int id = atoi(argv[3]);
  if (id < 0 || id >= (int)sc.stmts.size()) return 2;
  const Stmt& s = sc.stmts[id];
  FILE* tr = fopen(".simtrace", "ab");
  if (tr) { fprintf(tr, "%d\n", id); fclose(tr); }
  ContentFn get = [](const std::string& p, std::string* c) { return ReadReal(p, c); };
  std::vector<std::string> rs = ReadSet(sc, s, get);
  std::vector<std::pair<std::string, std::string>> snap;
  for (auto& p : rs) { std::string c; if (!ReadReal(p, &c)) c = "<missing>"; snap.emplace_back(p, c); }
  std::string rsp = sc.RspContent(s);
  std::vector<std::string> outs = sc.DeclaredOuts(id);
  for (size_t i = 0; i < outs.size(); i++) {
    std::string content = OutputContent(s, (int)i, snap, rsp), have;
    if (s.restat && ReadReal(outs[i], &have) && have == content) continue;
    WriteReal(outs[i], content);
  }
  if (s.deps_kind == 1 || s.deps_kind == 2) {
    std::string d = s.outs[0] + ":";
    for (auto& p : rs) d += " " + (Hash64(p, 3) % 3 == 0 ? "./" + p : p);
    d += "\n";
    WriteReal(s.depfile, d);
  }
  return 0;
}

// ---------------------------------------------------------------- the comparison
namespace {
struct Step { int kind; std::string path, content; int stmt = -1; std::vector<std::string> targets; };
struct BuildObs { int exit_code = 0; std::string order; std::map<std::string, std::string> files; std::map<std::string, uint64_t> log; std::map<std::string, std::vector<std::string>> deps; };

void ListReal(const std::string& dir, const std::string& rel, std::map<std::string, std::string>* out) {
  DIR* d = opendir((dir + "/" + rel).c_str());
  if (!d) return;
  while (dirent* e = readdir(d)) {
    std::string n = e->d_name;
    if (n == "." || n == "..") continue;
    std::string r = rel.empty() ? n : rel + "/" + n;
    struct stat st;
    if (stat((dir + "/" + r).c_str(), &st) != 0) continue;
    if (S_ISDIR(st.st_mode)) ListReal(dir, r, out);
    else { std::string c; ReadReal(dir + "/" + r, &c); (*out)[r] = c; }
  }
  closedir(d);
}
bool Ignored(const std::string& p) { return p == ".simtrace" || p == ".ninja_log" || p == ".ninja_deps" || p == "scenario.txt" || p == "sim" || p == ".ninja_lock"; }
}  // namespace

int FidelityMain(uint64_t seed, uint64_t first, uint64_t count, const std::string& realninja, const std::string& self) {
  long mismatches = 0, builds = 0, commands = 0;
  for (uint64_t idx = first; idx < first + count; idx++) {
    Tape tape;
    uint64_t x = seed;
    tape.seed = Rng::SplitMix(x) ^ (idx * 0x9e3779b97f4a7c15ull);
    GenParams gp;
    gp.features = F_IMPLICIT | F_ORDERONLY | F_MULTIOUT | F_PHONY | F_RESTAT | F_DEPFILE | F_DEPSGCC | F_RSP | F_SUBDIRS | F_DEFAULT | F_GEN_HEADERS | F_GENERATOR | F_VALIDATION | F_DESCRIPTION;
    gp.max_stmts = 8;
    Scenario sc = GenerateScenario(tape, 0, gp);
    Profile prof = GetProfile("C01", false);
    prof.child_output = false;
    prof.backdating_cmds = false;   // the real helper command stamps its outputs with the current time
    RunStats stats;
    std::vector<Violation> viol;
    World w;
    w.tape = &tape; w.prof = &prof; w.viol = &viol; w.stats = &stats;
    w.k.coarse_clock = false;
    w.Init(sc);
    // history
    std::vector<Step> steps;
    int nsteps = 3 + (int)tape.Choice(1, 6);
    steps.push_back({0, "", ""});
    for (int i = 0; i < nsteps; i++) {
      uint32_t kdraw = tape.Choice(1, 6);
      Step st{(int)kdraw, "", ""};
      if (kdraw == 1 || kdraw == 2) { st.path = sc.sources[tape.Choice(1, (uint32_t)sc.sources.size())]; }
      else if (kdraw == 3) { const Stmt& s = sc.stmts[tape.Choice(1, (uint32_t)sc.stmts.size())]; if (s.phony) st.kind = 0; else st.path = s.outs[0]; }
      else if (kdraw == 4) { st.stmt = (int)tape.Choice(1, (uint32_t)sc.stmts.size()); if (sc.stmts[st.stmt].phony) st.kind = 0; }
      else if (kdraw == 5) { const Stmt& s = sc.stmts[tape.Choice(1, (uint32_t)sc.stmts.size())]; st.kind = 0; st.targets.push_back(s.outs[0]); }
      steps.push_back(st);
      if (st.kind != 0) steps.push_back({0, "", ""});
    }
    // ---- real side set-up
    char dir[64];
    snprintf(dir, sizeof dir, "/tmp/simfid_%d_%llu", (int)getpid(), (unsigned long long)idx);
    std::string D = dir;
    mkdir(dir, 0777);
    auto sync_sources = [&]() {
      for (auto& p : w.sc.sources) { std::string c; if (w.k.ReadFile(p, &c)) { std::string have; if (!ReadReal(D + "/" + p, &have) || have != c) WriteReal(D + "/" + p, c); } }
    };
    WriteReal(D + "/sim", "#!/bin/sh\nexec " + self + " realchild " + D + "/scenario.txt \"$@\"\n");
    chmod((D + "/sim").c_str(), 0755);
    std::vector<BuildObs> so, ro;
    std::string problems;
    if (getenv("SIM_FID_DEBUG")) { HPrintf("%s\n", w.sc.ManifestText().c_str()); for (auto& st : steps) HPrintf("step kind=%d path=%s stmt=%d targets=%zu\n", st.kind, st.path.c_str(), st.stmt, st.targets.size()); }
    for (auto& st : steps) {
      if (st.kind == 1) { w.version[st.path]++; std::string c = w.SourceContent(st.path); w.k.WriteFile(st.path, c, true); WriteReal(D + "/" + st.path, c); }
      else if (st.kind == 2) { std::string c; w.k.ReadFile(st.path, &c); w.k.WriteFile(st.path, c, true); WriteReal(D + "/" + st.path, c); }
      else if (st.kind == 3) { w.k.Remove(st.path); unlink((D + "/" + st.path).c_str()); }
      else if (st.kind == 4) { w.sc.stmts[st.stmt].cosmetic++; w.WriteManifest(); }
      if (st.kind != 0) continue;
      // (sim) build
      InvPlan p; p.j = 1; p.k = 1; p.stream = 100 + (int)so.size(); p.targets = st.targets;
      InvRecord r = w.RunInvocation(p);
      if (getenv("SIM_FID_DEBUG")) HPrintf("--- sim build %zu\n%s%s", so.size(), r.res.err.c_str(), r.res.out.c_str());
      BuildObs a;
      a.exit_code = r.res.end == ProcResult::kExit ? r.res.exit_code : -1;
      for (auto& x : r.spawns) a.order += std::to_string(x.stmt) + ",";
      for (auto& kv : w.k.fs.nodes) if (kv.second->kind == Inode::kFile) { std::string rel = kv.first.substr(3); if (!Ignored(rel)) a.files[rel] = kv.second->data; }
      for (auto& kv : r.log_after.last) a.log[kv.first] = kv.second.hash;
      for (auto& kv : r.deps_after.last) { auto v = kv.second.deps; std::sort(v.begin(), v.end()); a.deps[kv.first] = v; }
      so.push_back(a);
      // (real) build
      WriteReal(D + "/build.ninja", w.sc.ManifestText());
      WriteReal(D + "/scenario.txt", SerializeScenario(w.sc));
      sync_sources();
      unlink((D + "/.simtrace").c_str());
      std::string cmd = "cd " + D + " && PATH=" + D + ":$PATH " + realninja + " -j1";
      for (auto& t : st.targets) cmd += " '" + t + "'";
      cmd += " >/dev/null 2>&1";
      int rc = system(cmd.c_str());
      BuildObs b;
      b.exit_code = WIFEXITED(rc) ? WEXITSTATUS(rc) : -1;
      std::string tr;
      if (ReadReal(D + "/.simtrace", &tr)) for (auto& l : SplitV(tr, '\n')) if (!l.empty()) b.order += l + ",";
      std::map<std::string, std::string> all;
      ListReal(D, "", &all);
      for (auto& kv : all) if (!Ignored(kv.first)) b.files[kv.first] = kv.second;
      std::string lb, ld;
      bool hb = ReadReal(D + "/.ninja_log", &lb), hd = ReadReal(D + "/.ninja_deps", &ld);
      for (auto& kv : FoldBuildLog(lb, hb).last) b.log[kv.first] = kv.second.hash;
      for (auto& kv : FoldDepsLog(ld, hd).last) { auto v = kv.second.deps; std::sort(v.begin(), v.end()); b.deps[kv.first] = v; }
      ro.push_back(b);
      builds++;
      commands += (long)r.spawns.size();
      size_t bi = so.size() - 1;
      if (a.exit_code != b.exit_code) problems += "build " + std::to_string(bi) + ": exit " + std::to_string(a.exit_code) + " (sim) vs " + std::to_string(b.exit_code) + " (real); ";
      if (a.order != b.order) problems += "build " + std::to_string(bi) + ": commands [" + a.order + "] (sim) vs [" + b.order + "] (real); ";
      if (a.files != b.files) {
        // (depfiles are compared by existence: the two commands spell the same dependencies differently)
        auto is_depfile = [&](const std::string& p) { for (const Stmt& s : w.sc.stmts) if (s.depfile == p) return true; return false; };
        for (auto& kv : a.files) if (!b.files.count(kv.first)) problems += "file " + kv.first + " only in sim; "; else if (b.files[kv.first] != kv.second && !is_depfile(kv.first)) problems += "file " + kv.first + " differs; ";
        for (auto& kv : b.files) if (!a.files.count(kv.first)) problems += "file " + kv.first + " only in real; ";
      }
      if (a.log != b.log) problems += "build " + std::to_string(bi) + ": build logs differ in meaning; ";
      if (a.deps != b.deps) problems += "build " + std::to_string(bi) + ": deps logs differ in meaning; ";
    }
    std::string rm = "rm -rf " + D;
    if (system(rm.c_str())) {}
    if (!problems.empty()) mismatches++;
    HPrintf("{\"run\":%llu,\"builds\":%zu,\"mismatch\":\"%s\"}\n", (unsigned long long)idx, so.size(), JsonEscape(problems.substr(0, 600)).c_str());
  }
  HPrintf("{\"fidelity_runs\":%llu,\"builds\":%ld,\"commands\":%ld,\"mismatching_runs\":%ld}\n", (unsigned long long)count, builds, commands, mismatches);
  return mismatches ? 1 : 0;
}

}  // namespace sim
