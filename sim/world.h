// World driver: whole-ninja histories on the simulated kernel, with oracles.
#pragma once
#include <map>
#include <set>
#include <string>
#include <vector>
#include "kernel.h"
#include "scenario.h"
#include "models.h"

namespace sim {

struct Violation {
  std::string prop, cls, msg;
};

// Which faults / ops / features a check enables (DESIGN appendix A).
struct Profile {
  std::string name = "C01";
  GenParams gen;
  // history op weights
  int w_build = 10, w_edit = 6, w_touch = 2, w_del_out = 3, w_change_cmd = 2, w_change_rsp = 1,
      w_manifest_edit = 0, w_regen = 1, w_del_log = 1, w_clean = 0, w_cleandead = 0, w_tool_ro = 0,
      w_dry = 0, w_recompact = 0, w_restat_tool = 0, w_del_depfile = 1, w_edit_includes = 2, w_empty_source = 1, w_inflate_log = 1, w_include_churn = 2, w_block_dir = 0, w_missing_source = 0, w_missing_dyndep_source = 0, w_dyndep_restat_stir = 0, w_dyndep_stir = 0;
  int min_ops = 3, max_ops = 9;
  // fault kinds for builds (per mille of builds / commands)
  int pm_cmd_fail = 0;        // a command fails
  int pm_cmd_signal = 0;      // a command dies from a signal
  int pm_interrupt = 0;       // ninja receives SIGINT/TERM/HUP
  int pm_crash = 0;           // ninja dies at a syscall
  int pm_torn = 0;            // ninja dies inside a write
  int pm_io_error = 0;        // a syscall of ninja fails
  int pm_editor = 0;          // external edit while a build runs
  int pm_jobserver = 0;       // build runs as jobserver client
  bool regen_may_fail = false; // the manifest's own generator command can fail too (C05)
  int pm_tty = 0;             // smart terminal
  int pm_load = 0;            // -l
  bool buggify = true;
  bool child_output = true;
  bool hostile_output = false;
  bool prune_empty_dirs = false;        // some commands end by deleting every empty directory (-j1 builds)
  bool generator_restats_log = false;   // generator commands may end with `ninja -t restat` (log replaced mid-build)
  bool signal_at_syscall = false;      // half of the interrupts arrive at a syscall where ninja is busy, not while it waits
  bool backdating_cmds = false;        // a third of the ordinary commands give their outputs the time of their newest input (cp -p, install -p, tar)
  bool multi_process_cmds = false;     // half of the commands are a shell plus a program in the same process group
  bool cmd_interrupt_status = false;   // failing commands may end with status 130 / die from SIGINT, SIGTERM, SIGHUP
  bool invalid_dyndep = false;      // a third of the runs: producers write damaged dyndep files (outside C11's own single-world runs)
  bool subset_then_touch = false;   // history macro: rebuild a restat statement alone, touch its source, build all
  bool check_convergence = true;
  bool coarse_clock_allowed = true;
  bool twin_deps = false, twin_dyndep = false;   // C10 / C11 metamorphic mode
  bool cycles = false;                            // C17
  bool damage = false;                            // C13 storage damage ops
  bool enumerate_faults = false;                  // C07: probe run then one fault per index
  bool small_graph = false;                       // C04S: one full -j0 build of a small plain DAG
};
Profile GetProfile(const std::string& name, bool thorough);

struct SpawnRec {
  uint64_t seq = 0;
  int64_t time = 0, sysno = 0;
  int stmt = -1, pid = 0, epoch = 0;
  bool console = false;
  std::string cmd;
  std::set<int> closure;            // statements this one transitively needs (at spawn time)
  std::vector<std::string> outs;    // declared outputs at spawn time
  std::string pool;
  int planned_status = 0;           // wait status the child will report
  uint64_t exit_seq = 0, reap_seq = 0;
  int reap_status = -1;
  std::string output;               // bytes the child wrote to its pipe / tty
  std::map<std::string, std::pair<std::string, int64_t>> pre_outs;  // output state when the command started
  std::map<std::string, int64_t> in_mtime_at_start;                  // C03: effective inputs -> mtime when the command started
  bool killed = false;
  bool deps_kind_depfile = false;
  bool pre_depfile = false;         // the depfile existed when the command started
  std::string depfile;
  int deps_kind = 0;
  std::vector<std::string> reported_deps;   // what the command tells ninja it read (depfile list / showIncludes lines)
};

struct InvPlan {
  std::vector<std::string> targets;
  int j = 4;                 // -1: no -j flag (jobserver / default parallelism)
  int k = 1;
  double l = 0;
  bool dry = false, verbose = false, quiet = false;
  bool explain = false, keeprsp = false, keepdepfile = false;
  bool tty = false;
  int cols = 80;
  int color_env = 0;         // bit 0..5: NO_COLOR=1, CLICOLOR_FORCE=1, FORCE_COLOR=1, NO_COLOR=0, CLICOLOR_FORCE=0, FORCE_COLOR=0 ("0" means unset)
  // colour support as the conventions (no-color.org, CLICOLOR_FORCE, FORCE_COLOR) and ninja's manual give it: a smart
  // terminal has it unless NO_COLOR is set; without a smart terminal CLICOLOR_FORCE gives it unless NO_COLOR is set,
  // FORCE_COLOR gives it in any case; a value of "0" counts as not set
  bool Color() const { bool nc = color_env & 1, cf = color_env & 2, fc = color_env & 4; if (tty && !nc) return true; return (!nc && cf) || fc; }
  int status_mode = 0;       // 0 default, 1 NINJA_STATUS env, 2 --status
  std::vector<std::string> tool;     // "-t" args when this is a tool run
  bool jobserver = false;
  int js_tokens = 0, js_peers = 0;
  int js_variant = 0;        // spelling of MAKEFLAGS: 0-3 describe the fifo pool in different legal ways, 4-8 say "no jobserver" (see World::RunInvocation)
  bool JsActive() const { return jobserver && js_variant <= 3; }
  std::map<int, std::pair<int, int>> fail;   // stmt -> (wait status, mode 0 untouched / 1 all written / 2 partial)
  int on_signal = 0;
  FaultPlan fp;
  bool editor = false;
  int stream = 100;
  int nproc = 4;
  bool record_sys = false;   // probe run: record the kind of every syscall
  std::string status_fmt;    // C13: arbitrary status format (NINJA_STATUS when status_mode==1, --status when 2)
  std::string makeflags;     // C13: arbitrary MAKEFLAGS when the build is not a jobserver client
  bool garbage_child_output = false;   // C13: deps = msvc children print arbitrary bytes
};

struct InvRecord {
  InvPlan plan;
  std::vector<std::string> argv;
  ProcResult res;
  std::vector<SpawnRec> spawns;
  bool external_edit = false;
  bool editor_scheduled = false;
  std::set<std::string> edited_during;   // files edited while the build ran
  std::map<std::string, std::set<int>> read_by;   // file -> statements that read it in this invocation
  bool fault_fired = false;              // any injected fault (not buggify)
  bool log_restated = false;             // a generator command ran `ninja -t restat` (recorded mtimes = output mtimes)
  bool interrupted = false;
  int interrupt_sig = 0;
  int epochs = 0;
  BuildLogFold log_before, log_after;
  DepsLogFold deps_before, deps_after;
  std::map<std::string, std::pair<uint64_t, int64_t>> fs_before;   // path -> (content hash, mtime)
  int tokens_before = -1, tokens_after = -1;
  std::set<std::string> dd_at_start;   // dyndep files that existed when ninja started
  bool log_torn_tail_before = false;   // .ninja_log did not end in a newline when ninja started (a crash tore it)
  // state at the instant ninja exited (before orphaned children continue)
  std::map<std::string, std::pair<std::string, int64_t>> outs_at_exit;   // only paths that exist
  bool lock_at_exit = false;
  std::set<int> alive_at_exit;     // pids of children still running when ninja exited
  bool quiet() const { return !fault_fired && !external_edit; }
  bool ok() const { return res.end == ProcResult::kExit && res.exit_code == 0; }
};

struct RunStats {
  std::map<std::string, long> n;       // counters / probes
  std::map<std::string, long> faults;  // faults fired by kind
  long invocations = 0, spawns = 0;
  int64_t sim_ns = 0;
  uint64_t sig = 0;                    // run signature (shape + ordered events)
  uint64_t full_hash = 0;              // everything observable: traces, outputs (determinism gate)
  std::set<uint64_t> plan_states;
  std::map<std::string, bool> nontrivial;   // property -> trigger met
  std::string small_shape, small_order;     // C04 small-graph mode: scenario hash, completion order
  long small_linext = 0;                    // number of linear extensions of its dependency order
};

struct World : SpawnHandler {
  Kernel k;
  Scenario sc;
  Scenario pending;           // what a manifest regeneration will write
  bool has_pending = false;
  bool log_restated = false;   // a generator command replaced the build log during the current invocation
  std::string missing_source;  // a source file removed for the next build (history macro)
  bool editor_ever = false;    // some earlier invocation of this history ran with the external editor
  std::map<std::string, int> version;
  std::map<std::string, int> inc_version;   // which hidden includes a source pulls in (no effect on what is computed)
  std::set<std::string> emptied;            // sources whose content is currently empty
  std::map<std::string, std::string> dd_override;   // damaged text a dyndep file currently has / will be given by its producer ("<absent>" = not written)
  Tape* tape = nullptr;
  const Profile* prof = nullptr;
  std::vector<Violation>* viol = nullptr;
  RunStats* stats = nullptr;
  InvRecord* cur = nullptr;   // invocation in progress
  int epoch = 0;
  std::string label;          // "main", "twin", "fork"
  // jobserver bookkeeping
  int tokens_held = 0;
  int peer_holding = 0;       // tokens currently held by simulated jobserver peers
  std::map<int, int> live;    // pid -> statement of running children
  // deps ninja has been told about: statement -> hidden includes at its last successful completion
  std::map<int, std::vector<std::string>> reported_hidden;

  void Init(const Scenario& s);
  World Fork() const;
  void WriteManifest();
  std::string SourceContent(const std::string& p) const;
  void Report(const std::string& prop, const std::string& cls, const std::string& msg);
  std::set<int> Closure(const std::vector<std::string>& targets, bool with_validations) const;
  std::set<int> StmtClosure(int stmt) const;    // strict input closure, no validations
  std::vector<std::string> EffectiveTargets(const InvPlan& p) const;

  InvRecord RunInvocation(const InvPlan& plan);
  ChildPlan OnSpawn(Kernel& kk, const std::string& cmd, bool console) override;

  // ---- C03: make-semantics model of what a build has to run
  struct CleanState {                       // taken when a statement last completed successfully and was recorded
    uint64_t cmd_hash = 0;
    std::map<std::string, int64_t> in_mtime;    // every non-order-only input (through phony aliases) -> mtime when the command started
    std::map<std::string, int64_t> out_mtime;   // outputs (and a plain depfile) -> mtime after it finished
  };
  std::map<int, CleanState> clean_state;
  std::set<int> expected_run;               // computed before an invocation
  bool expected_valid = false;
  std::vector<std::string> EffectiveInputs(int stmt) const;   // non-order-only inputs, aliases resolved, discovered ones included
  void ComputeExpectedRun(const InvPlan& p);
  void UpdateCleanState(const InvRecord& r);
  void CheckMinimality(const InvRecord& r);
  void CheckRecordedDeps(const InvRecord& r);
  void CheckLogTimes(const InvRecord& r);

  // oracles (oracles.cc)
  void CheckAll(InvRecord& r);
  void CheckContent(const InvRecord& r, const char* prop);
  void CheckOrdering(const InvRecord& r);
  void CheckFailures(const InvRecord& r);
  void CheckLimits(const InvRecord& r);
  void CheckOutput(const InvRecord& r);
  void CheckTermination(const InvRecord& r);
  void CheckRsp(const InvRecord& r);
  void CheckInterrupt(const InvRecord& r);
  void CheckCycles(const InvRecord& r, const std::set<std::string>& dd_at_start);
};

struct RunResult {
  std::vector<Violation> violations;
  RunStats stats;
  std::string decoded;     // human-readable plan
};
RunResult RunOne(Tape& tape, const Profile& prof);

}  // namespace sim
