#include "models.h"
#include <string.h>
#include <algorithm>
#include <stdlib.h>
#include "third_party/rapidhash/rapidhash.h"

namespace sim {

uint64_t NinjaCommandHash(const std::string& command) { return rapidhash(command.data(), command.size()); }

// Mirrors the documented reading discipline of the log: the file is consumed
// through a 256 KiB window; a line that does not fit in the window is silently
// ignored (pinned by BuildLogTest.VeryLongInputLine), a last line without a
// newline is not a record, a line needs four tabs, the last record per output wins.
BuildLogFold FoldBuildLog(const std::string& b, bool present) {
  BuildLogFold f;
  f.present = present;
  if (!present) return f;
  const size_t N = 256 << 10;
  std::string buf;           // window
  size_t file_pos = 0;
  size_t line_start = 0;
  bool have_end = false;
  size_t line_end = 0;
  bool first = true;
  bool started = false;
  for (;;) {
    // ---- ReadLine
    if (!started || line_start >= buf.size() || !have_end) {
      size_t n = std::min(N, b.size() - file_pos);
      if (n == 0) break;
      buf.assign(b, file_pos, n);
      file_pos += n;
      line_start = 0;
      started = true;
    } else {
      line_start = line_end + 1;
    }
    size_t nl = buf.find('\n', line_start);
    have_end = nl != std::string::npos;
    line_end = nl;
    if (!have_end) {
      std::string rest = buf.substr(line_start);
      size_t n = std::min(N - rest.size(), b.size() - file_pos);
      buf = rest + b.substr(file_pos, n);
      file_pos += n;
      line_start = 0;
      nl = buf.find('\n', 0);
      have_end = nl != std::string::npos;
      line_end = nl;
    }
    // ---- one iteration of Load's loop
    if (first) {
      first = false;
      int v = 0;
      std::string head = buf.substr(line_start, 40);
      sscanf(head.c_str(), "# ninja log v%d\n", &v);
      f.version = v;
      f.valid_header = (v == 7);
      if (!f.valid_header) return f;
    }
    if (!have_end) continue;
    std::string line = buf.substr(line_start, line_end - line_start);
    size_t t1 = line.find('\t'); if (t1 == std::string::npos) continue;
    size_t t2 = line.find('\t', t1 + 1); if (t2 == std::string::npos) continue;
    size_t t3 = line.find('\t', t2 + 1); if (t3 == std::string::npos) continue;
    size_t t4 = line.find('\t', t3 + 1); if (t4 == std::string::npos) continue;
    LogRec r;
    r.start = atoi(line.substr(0, t1).c_str());
    r.end = atoi(line.substr(t1 + 1, t2 - t1 - 1).c_str());
    r.mtime = strtoll(line.substr(t2 + 1, t3 - t2 - 1).c_str(), nullptr, 10);
    std::string out = line.substr(t3 + 1, t4 - t3 - 1);
    r.hash = strtoull(line.substr(t4 + 1).c_str(), nullptr, 16);
    f.last[out] = r;
    f.total++;
  }
  return f;
}

DepsLogFold FoldDepsLog(const std::string& b, bool present) {
  DepsLogFold f;
  f.present = present;
  if (!present) return f;
  static const char kSig[] = "# ninjadeps\n";
  const size_t kSigLen = sizeof(kSig) - 1;
  if (b.size() < kSigLen + 4 || memcmp(b.data(), kSig, kSigLen) != 0) return f;
  int32_t ver; memcpy(&ver, b.data() + kSigLen, 4);
  if (ver != 4) return f;
  f.valid_header = true;
  size_t off = kSigLen + 4;
  f.good_size = off;
  for (;;) {
    if (off == b.size()) { f.clean_eof = true; break; }
    if (off + 4 > b.size()) break;
    uint32_t size; memcpy(&size, b.data() + off, 4);
    bool is_deps = (size >> 31) != 0;
    size &= 0x7fffffffu;
    if (size > (1u << 19) - 1) break;
    if (off + 4 + size > b.size()) break;
    const char* rec = b.data() + off + 4;
    if (is_deps) {
      if (size % 4 != 0 || size < 12) break;
      int32_t out_id; memcpy(&out_id, rec, 4);
      uint32_t lo, hi; memcpy(&lo, rec + 4, 4); memcpy(&hi, rec + 8, 4);
      int n = (int)(size / 4) - 3;
      if (out_id < 0 || out_id >= (int)f.paths.size()) break;
      DepsRec r;
      r.mtime = (int64_t)(((uint64_t)hi << 32) | lo);
      bool bad = false;
      for (int k = 0; k < n; k++) {
        int32_t id; memcpy(&id, rec + 12 + 4 * k, 4);
        if (id < 0 || id >= (int)f.paths.size()) { bad = true; break; }
        r.deps.push_back(f.paths[id]);
      }
      if (bad) break;
      f.last[f.paths[out_id]] = r;
      f.total++;
    } else {
      int path_size = (int)size - 4;
      if (path_size <= 0) break;
      std::string p(rec, path_size);
      for (int k = 0; k < 3 && !p.empty() && p.back() == '\0'; k++) p.pop_back();
      uint32_t checksum; memcpy(&checksum, rec + size - 4, 4);
      int expected = (int)~checksum;
      if (expected != (int)f.paths.size()) break;
      bool dup = false;
      for (auto& q : f.paths) if (q == p) { dup = true; break; }
      if (dup) break;
      f.paths.push_back(p);
    }
    off += 4 + size;
    f.good_size = off;
  }
  return f;
}

std::string JsonEscape(const std::string& s) {
  std::string r;
  char buf[8];
  for (unsigned char c : s) {
    if (c == '"') r += "\\\"";
    else if (c == '\\') r += "\\\\";
    else if (c == '\n') r += "\\n";
    else if (c == '\t') r += "\\t";
    else if (c < 0x20 || c >= 0x7f) { snprintf(buf, sizeof buf, "\\u%04x", c); r += buf; }
    else r += (char)c;
  }
  return r;
}

}  // namespace sim
