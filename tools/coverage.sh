#!/bin/bash
# Measurement, not a check: which lines of ninja the simulated runs reach.
# usage: tools/coverage.sh [runs_per_profile]   (builds build/cov with gcov instrumentation)
cd "$(dirname "$0")/.."
n=${1:-300}
python3 tools/build.py cov >/dev/null || exit 2
cd build/cov && rm -f *.gcda *.gcov
for p in $(python3 -c "import json; print(' '.join(c['property_id'] for c in json.load(open('../../MANIFEST.json'))['checks']))"); do
  ./simninja run --profile $p --seed ${VERIF_SEED:-1} --first 0 --count $n >/dev/null 2>&1
done
gcov -n n_*.o 2>/dev/null | grep -A1 "^File '.*/src/" | grep -v "^--" | paste - - | sed "s|File '.*/src/||; s|'||; s|Lines executed:||" | awk '{printf "%-28s %s %s %s\n", $1, $2, $3, $4}' | sort -k2 -n
