#!/bin/bash
# every claimed check, quick tier, current VERIF_SEED (default 1); prints one line per check
cd "$(dirname "$0")/.."
props=$(python3 -c "import json; print(' '.join(c['property_id'] for c in json.load(open('MANIFEST.json'))['checks']))")
fail=0
for p in $props; do
  out=$(python3 tools/check.py $p --tier ${1:-quick} 2>&1); rc=$?
  echo "$p rc=$rc $(echo "$out" | grep "^$p " | cut -c1-110)"
  if [ $rc -ne 0 ]; then fail=1; echo "$out" | grep -v "^KNOWN" | head -8 | cut -c1-300; fi
done
exit $fail
