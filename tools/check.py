#!/usr/bin/env python3
"""Per-property check driver (MANIFEST quick_cmd / thorough_cmd / replay).

  tools/check.py <Cxx> --tier quick|thorough
  tools/check.py --replay <file>

Exit 0: property held on everything explored (KNOWN-FINDING lines allowed).
Exit 1: `VIOLATION property=<id> replay=<path>` printed.
Exit 2: harness problem (build failure, nondeterminism, workers dying).
"""
import json, os, subprocess, sys, time, collections, shutil, hashlib

VERIF = os.path.dirname(os.path.dirname(os.path.abspath(__file__)))
sys.path.insert(0, os.path.join(VERIF, "tools"))
import build as B  # noqa

NWORKERS = int(os.environ.get("VERIF_WORKERS", "16"))

# runs per tier; (profile, share) lists let one property draw on several profiles
BUDGET = {
    #        quick, thorough
    "C01": (3000, 200000), "C02": (3000, 200000), "C03": (3000, 200000), "C04": (3000, 200000),
    "C05": (3000, 150000), "C06": (3000, 150000), "C07": (2000, 100000),
    "C08": (4000, 200000), "C09": (4000, 200000),
    "C10": (3000, 100000), "C11": (5000, 100000), "C13": (2000, 60000),
    "C16": (3000, 100000), "C17": (4000, 100000), "C18": (3000, 100000),
    "C19": (3000, 100000), "C20": (3000, 100000),
}
# extra runs (a fraction of the budget, run indices continue after the main ones) from another
# profile whose histories exercise the same property from a different side
EXTRA_PROFILE = {"C08": ("C08T", 0.25),   # the log tools from the command line, between whole-program builds
                 "C05": ("C05R", 0.25)}   # manifests with a generator statement that may fail itself
SAN_SHARE = {"C13": 1.0}          # fraction of runs on the ASan+UBSan binary
DEFAULT_SAN_SHARE = 0.08
LOGDRV = {"C08", "C09"}

LEVEL = {"C05": "fault_enumeration", "C07": "fault_enumeration", "C08": "fault_enumeration", "C09": "fault_enumeration"}

RULES = {
    "default": "one evaluation = one seeded history (scenario + 3-10 operations, each build a whole simulated ninja process "
               "under a seeded schedule); non-trivial = the property's trigger was met in the run (see DESIGN appendix A); "
               "distinct = distinct run signature (hash of scenario shape and the ordered spawn/reap/fault events)",
}


def known_findings():
    p = os.path.join(VERIF, "known_findings.json")
    if not os.path.exists(p):
        return {"findings": [], "fixed": []}
    return json.load(open(p))


def run_workers(exe, profile, tier, seed, first, count, outdir, extra=None, nworkers=NWORKERS, cmd="run"):
    """Runs `count` run indices split over workers; restarts dead workers.
    Returns (lines, crashes) where crashes = [(run_index, exit_code, stderr_tail)]."""
    per = max(1, (count + nworkers - 1) // nworkers)
    jobs = []
    a = first
    while a < first + count:
        n = min(per, first + count - a)
        jobs.append([a, n])
        a += n
    lines, crashes = [], []
    procs = []

    def start(a, n):
        args = [exe, cmd, "--profile", profile, "--tier", tier, "--seed", str(seed), "--first", str(a), "--count", str(n),
                "--out-dir", outdir] + (extra or [])
        env = dict(os.environ)
        env["ASAN_OPTIONS"] = "exitcode=77:detect_leaks=0:detect_stack_use_after_return=0:abort_on_error=0:allocator_may_return_null=1"
        env["UBSAN_OPTIONS"] = "print_stacktrace=1:halt_on_error=1:exitcode=77"
        # output goes to files: reading pipes one worker after the other would stall
        # every worker but the first as soon as its 64 KiB pipe buffer is full
        os.makedirs(outdir, exist_ok=True)
        base = os.path.join(outdir, ".worker_%d_%d_%d" % (os.getpid(), a, n))
        fo, fe = open(base + ".out", "w+b"), open(base + ".err", "w+b")
        pr = subprocess.Popen(args, stdout=fo, stderr=fe, env=env)
        pr._files = (fo, fe, base)
        return pr

    def finish(pr):
        pr.wait()
        fo, fe, base = pr._files
        res = []
        for f in (fo, fe):
            f.seek(0)
            res.append(f.read().decode("utf-8", "replace"))
            f.close()
        for suffix in (".out", ".err"):
            try:
                os.unlink(base + suffix)
            except OSError:
                pass
        return res[0], res[1]

    for a, n in jobs:
        procs.append([start(a, n), a, n])
    guard = 0
    while procs:
        nxt = []
        for p, a, n in procs:
            out, err = finish(p)
            done = a
            for ln in out.split("\n"):
                if not ln.startswith("{"):
                    continue
                try:
                    d = json.loads(ln)
                except Exception:
                    continue
                lines.append(d)
                done = d["run"] + 1
            if p.returncode != 0 or done < a + n:
                # the worker died inside run `done`
                crashes.append((done, p.returncode, err[-3000:]))
                guard += 1
                if done + 1 < a + n and guard < 200:
                    nxt.append([start(done + 1, a + n - done - 1), done + 1, a + n - done - 1])
        procs = nxt
    return lines, crashes


def replay(exe, path, extra=None):
    env = dict(os.environ)
    env["ASAN_OPTIONS"] = "exitcode=77:detect_leaks=0:abort_on_error=0"
    env["UBSAN_OPTIONS"] = "print_stacktrace=1:halt_on_error=1:exitcode=77"
    r = subprocess.run([exe, "replay", path] + (extra or []), capture_output=True, text=True, errors="replace", env=env)
    res = None
    for ln in r.stdout.split("\n"):
        if ln.startswith("{"):
            try:
                res = json.loads(ln)
            except Exception:
                pass
    return r.returncode, res, r.stderr[-3000:]


def has_viol(res, prop, cls=None):
    if not res:
        return False
    return any(v["prop"] == prop and (cls is None or v["cls"] == cls) for v in res["viol"])


def build_cf(name, patch):
    """Counterfactual binary: current tree + a patch that neutralises one known
    finding's call site.  Returns exe path or None when the patch does not apply."""
    import tempfile
    work = os.path.join(VERIF, "build", "cfsrc-" + name)
    os.makedirs(work, exist_ok=True)
    # which files does the patch touch
    files = []
    for ln in open(patch):
        if ln.startswith("+++ "):
            files.append(os.path.basename(ln.split()[1]))
    override = {}
    changed = False
    for f in files:
        src = os.path.join(B.SRC, f)
        dst = os.path.join(work, f)
        stamp = dst + ".from"
        cur = hashlib.sha1(open(src, "rb").read() + open(patch, "rb").read()).hexdigest()
        if not (os.path.exists(dst) and os.path.exists(stamp) and open(stamp).read() == cur):
            shutil.copy(src, dst)
            r = subprocess.run(["patch", "-s", "-p2", "--no-backup-if-mismatch", dst, patch], capture_output=True, text=True)
            if r.returncode != 0:
                if os.path.exists(dst):
                    os.remove(dst)
                return None
            open(stamp, "w").write(cur)
            changed = True
        override[os.path.splitext(f)[0]] = dst
    return B.build("cf-" + name, src_override=override)


def build_cf_all(patches):
    """One binary with every known finding's counterfactual applied at once (name cf-ALL)."""
    work = os.path.join(VERIF, "build", "cfsrc-ALL")
    os.makedirs(work, exist_ok=True)
    per_file = {}
    for patch in patches:
        for ln in open(patch):
            if ln.startswith("+++ "):
                per_file.setdefault(os.path.basename(ln.split()[1]), []).append(patch)
    override = {}
    for f, ps in sorted(per_file.items()):
        src = os.path.join(B.SRC, f)
        dst = os.path.join(work, f)
        stamp = dst + ".from"
        cur = hashlib.sha1(open(src, "rb").read() + b"".join(open(x, "rb").read() for x in ps)).hexdigest()
        if not (os.path.exists(dst) and os.path.exists(stamp) and open(stamp).read() == cur):
            shutil.copy(src, dst)
            for x in ps:
                r = subprocess.run(["patch", "-s", "-p2", "--no-backup-if-mismatch", dst, x], capture_output=True, text=True)
                if r.returncode != 0:
                    if os.path.exists(dst):
                        os.remove(dst)
                    return None
            open(stamp, "w").write(cur)
        override[os.path.splitext(f)[0]] = dst
    return B.build("cf-ALL", src_override=override)


def main():
    args = sys.argv[1:]
    if args and args[0] == "--replay":
        exe = B.build("plain")
        if not exe:
            sys.exit(2)
        path = args[1]
        doc = json.load(open(path))
        binname = doc.get("binary", "plain")
        if binname == "san":
            exe = B.build("san")
        rc, res, err = replay(exe, path, ["-v"] if "-v" in args else None)
        if res is None:
            print("replay crashed rc=%s\n%s" % (rc, err))
            if doc.get("violations"):
                print("VIOLATION property=%s replay=%s" % (doc["violations"][0]["prop"], path))
            sys.exit(1)
        print(json.dumps(res)[:2000])
        want = doc.get("violations", [])
        for v in res["viol"]:
            if any(v["prop"] == w["prop"] for w in want) or not want:
                print("VIOLATION property=%s replay=%s" % (v["prop"], path))
                sys.exit(1)
        sys.exit(0)

    prop = args[0]
    tier = "quick"
    if "--tier" in args:
        tier = args[args.index("--tier") + 1]
    tier = os.environ.get("VERIF_TIER", tier) if "--tier" not in args else tier
    seed = int(os.environ.get("VERIF_SEED", "1"))
    runs_override = os.environ.get("VERIF_RUNS")
    t0 = time.time()
    nruns = BUDGET[prop][0 if tier == "quick" else 1]
    if runs_override:
        nruns = int(runs_override)
    outdir = os.path.join(VERIF, "out", prop)
    if os.path.isdir(outdir):
        shutil.rmtree(outdir)
    os.makedirs(outdir, exist_ok=True)

    exe = B.build("plain")
    if not exe:
        print("harness build failed")
        sys.exit(2)
    san_share = SAN_SHARE.get(prop, DEFAULT_SAN_SHARE)
    exe_san = None
    if san_share > 0:
        exe_san = B.build("san")
        if not exe_san:
            print("harness (san) build failed")
            sys.exit(2)
    unreset = [g for g in B.writable_globals(os.path.join(VERIF, "build", "plain")) if g not in B.KNOWN_RESET]

    n_san = int(nruns * san_share)
    n_plain = nruns - n_san
    cmd = "run"
    lines, crashes = [], []
    san_lines = []
    if n_plain:
        l, c = run_workers(exe, prop, tier, seed, 0, n_plain, outdir, cmd=cmd, extra=["--decoded-first"])
        lines += l
        crashes += [(i, rc, err, "plain") for i, rc, err in c]
    if n_san:
        l, c = run_workers(exe_san, prop, tier, seed, n_plain, n_san, outdir, cmd=cmd, nworkers=min(NWORKERS, 8))
        for d in l:
            d["san"] = True
        lines += l
        crashes += [(i, rc, err, "san") for i, rc, err in c]

    n_total = nruns
    extra_prof = None
    if prop in EXTRA_PROFILE:
        extra_prof, share = EXTRA_PROFILE[prop]
        n_extra = max(1, int(nruns * share))
        l, c = run_workers(exe, extra_prof, tier, seed, nruns, n_extra, outdir, cmd="run")
        for dd in l:
            dd["profile"] = extra_prof
        lines += l
        crashes += [(i, rc, err, "plain") for i, rc, err in c]
        n_total = nruns + n_extra

    def profile_of(idx):
        return extra_prof if extra_prof and idx >= nruns else prop

    # ---- C04: small plain DAGs re-run under many schedules; completion orders reached vs possible
    small_cov = None
    if prop == "C04":
        shapes = 8 if tier == "quick" else 60
        per = 150 if tier == "quick" else 1500
        seen, linext = collections.defaultdict(set), {}
        for si in range(shapes):
            l, c2 = run_workers(exe, "C04S", tier, seed, 0, per, outdir, extra=["--scen-seed", str(1000 + si * 7919 + seed)], nworkers=min(NWORKERS, 8))
            crashes += [(i, rc, err, "plain") for i, rc, err in c2]
            for d in l:
                if "small" in d:
                    seen[d["small"]["shape"]].add(d["small"]["order"])
                    linext[d["small"]["shape"]] = d["small"]["linext"]
                for v in d["viol"]:
                    if v["prop"] == prop:
                        d2 = dict(d); d2["run"] = d["run"]; lines.append(d2)
        small_cov = [{"shape": k, "linear_extensions": linext[k], "orders_reached": len(v), "ratio": round(len(v) / max(1, linext[k]), 3)} for k, v in seen.items()]

    # ---- aggregate
    agg_n, agg_f = collections.Counter(), collections.Counter()
    sigs, sigs_nt = set(), set()
    inv = spawns = sim_ns = 0
    samples = []
    viol_runs = []
    for d in lines:
        for k, v in d.get("n", {}).items():
            agg_n[k] += v
        for k, v in d.get("faults", {}).items():
            agg_f[k] += v
        sigs.add(d["sig"])
        if prop in d.get("nontrivial", []):
            sigs_nt.add(d["sig"])
        inv += d.get("inv", 0)
        spawns += d.get("spawns", 0)
        sim_ns += d.get("sim_ns", 0)
        if "decoded" in d and len(samples) < 3:
            samples.append(d["decoded"][:6000])
        if any(v["prop"] == prop for v in d["viol"]):
            viol_runs.append(d)

    # ---- violations: confirm, attribute to known findings, minimise, gate
    kf = known_findings()
    new_violations = []
    known_hit = collections.Counter()
    known_cls = collections.Counter()   # (finding id, violation class) -> runs
    unexamined = collections.Counter()
    harness_problem = None
    cf_exes = {}
    def cf_exe(f):
        if f["id"] not in cf_exes:
            cf_exes[f["id"]] = build_cf(f["id"], os.path.join(VERIF, f["counterfactual"])) if f.get("counterfactual") else None
        return cf_exes[f["id"]]

    cf_all_exe = []
    def cf_all():
        if not cf_all_exe:
            ps = [os.path.join(VERIF, f["counterfactual"]) for f in kf.get("findings", []) if f.get("counterfactual")]
            cf_all_exe.append(build_cf_all(ps) if ps else None)
        return cf_all_exe[0]

    def attribute(v, path):
        """Known finding?  The violation must disappear when exactly that call site is neutralised."""
        # exact-precondition classes first: the oracle itself established the finding
        for f in kf.get("findings", []):
            if prop in f.get("properties", []) and v["cls"] in f.get("match_classes", []):
                return f
        for f in kf.get("findings", []):
            if prop not in f.get("properties", []):
                continue
            if f.get("classes") and v["cls"] not in f["classes"]:
                continue
            if f.get("counterfactual"):
                cexe = cf_exe(f)
                if not cexe:
                    continue   # patch no longer applies: cannot attribute
                rc2, r2, _ = replay(cexe, path)
                if r2 is not None and not has_viol(r2, prop, v["cls"]):
                    return f
        return None

    budget_shrink = 12 if tier == "quick" else 40
    # the counterfactual binaries are built once, up front (the examination below runs in threads)
    for f in kf.get("findings", []):
        if prop in f.get("properties", []) and f.get("counterfactual") and viol_runs:
            cf_exe(f)

    def examine(d):
        """(harness problem | None, [(v, finding | None)]) for one violating run."""
        path = os.path.join(outdir, "replay_%s_%d_%d.json" % (d.get("profile", prop), seed, d["run"]))
        use = exe_san if d.get("san") else exe
        vs = [v for v in d["viol"] if v["prop"] == prop]
        if not os.path.exists(path):
            return "replay file missing for run %d" % d["run"], []
        doc = json.load(open(path))
        doc["binary"] = "san" if d.get("san") else "plain"
        json.dump(doc, open(path, "w"))
        out, hp = [], None
        r1 = None
        for v in vs:
            # gate: fresh-process replay must reproduce the same class
            if r1 is None:
                _, r1, _ = replay(use, path)
            if not has_viol(r1, prop, v["cls"]):
                hp = "violation %s/%s of run %d did not reproduce on replay (harness nondeterminism)" % (prop, v["cls"], d["run"])
                continue
            out.append((v, attribute(v, path)))
        return hp, out

    ordered = sorted(viol_runs, key=lambda d: d["run"])
    # Runs whose classes cannot belong to a known finding are examined in order and only
    # until a class has several confirmed violations (each may cost seconds: a runaway
    # loop); everything else is examined in parallel.
    def could_be_known(v):
        return any(prop in f.get("properties", []) and (not f.get("classes") or v["cls"] in f["classes"]) for f in kf.get("findings", []))
    par, seq = [], []
    for d in ordered:
        vs = [v for v in d["viol"] if v["prop"] == prop]
        (par if any(could_be_known(v) for v in vs) else seq).append(d)
    results = {}
    if par:
        import concurrent.futures
        with concurrent.futures.ThreadPoolExecutor(max_workers=NWORKERS) as ex:
            for d, res in zip(par, ex.map(examine, par)):
                results[d["run"]] = res
    for d in seq:
        vs = [v for v in d["viol"] if v["prop"] == prop]
        if all(sum(1 for _, w, _ in new_violations if w["cls"] == v["cls"]) + sum(1 for r_ in results.values() for w, f_ in r_[1] if f_ is None and w["cls"] == v["cls"]) >= 5 for v in vs):
            for v in vs:
                unexamined[v["cls"]] += 1
            continue
        results[d["run"]] = examine(d)
    for d in ordered:
        if d["run"] not in results:
            continue
        hp, out = results[d["run"]]
        if hp:
            harness_problem = hp
        path = os.path.join(outdir, "replay_%s_%d_%d.json" % (d.get("profile", prop), seed, d["run"]))
        for v, attributed in out:
            if attributed:
                known_hit[(attributed["id"], attributed["what"])] += 1
                known_cls["%s/%s" % (attributed["id"], v["cls"])] += 1
            else:
                new_violations.append((d, v, path))
    # crashes of workers: confirm by running that seed alone
    for idx, rc, err, which in crashes:
        use = exe_san if which == "san" else exe
        l, c = run_workers(use, profile_of(idx), tier, seed, idx, 1, outdir, cmd=("run" if profile_of(idx) != prop else cmd), nworkers=1)
        if c:
            cls = "sanitizer" if rc == 77 or "Sanitizer" in err or "runtime error" in err else "abnormal_exit"
            path = os.path.join(outdir, "crash_%s_%d_%d.json" % (prop, seed, idx))
            json.dump({"profile": prop, "tier": tier, "seed": seed, "run_index": idx, "binary": which, "crash": True,
                       "violations": [{"prop": prop, "cls": cls, "msg": err[-1500:]}], "stderr": err[-3000:]}, open(path, "w"))
            new_violations.append(({"run": idx}, {"prop": prop, "cls": cls, "msg": "worker died (rc=%s): %s" % (rc, err[-400:])}, path))
        else:
            harness_problem = "worker died at run %d (rc=%s) but the seed alone does not reproduce: %s" % (idx, rc, err[-300:])

    # minimise what will be reported (first few), then gate twice
    reported = []
    seen_cls = set()
    for d, v, path in new_violations:
        if v["cls"] in seen_cls and len(reported) >= 3:
            continue
        seen_cls.add(v["cls"])
        final = path
        if not path.startswith(os.path.join(outdir, "crash_")) and len(reported) < budget_shrink:
            use = exe_san if d.get("san") else exe
            r = subprocess.run([use, "shrink", path, "--prop", prop, "--cls", v["cls"]], capture_output=True, text=True)
            mp = path + ".min.json"
            if os.path.exists(mp):
                doc = json.load(open(mp))
                doc["binary"] = "san" if d.get("san") else "plain"
                json.dump(doc, open(mp, "w"))
                _, ra, _ = replay(use, mp)
                _, rb, _ = replay(use, mp)
                if has_viol(ra, prop, v["cls"]) and has_viol(rb, prop, v["cls"]) and ra["hash"] == rb["hash"]:
                    final = mp
                    # a run can contain a known finding next to something else of the same
                    # class; the minimised history isolates one cause, so ask again
                    # Minimisation keeps the class, not the cause: it can drift from a new defect
                    # into a known finding of the same class, and one run can contain several known
                    # findings at once.  So when the minimised history is attributable, the
                    # unminimised one is asked again on the binary with EVERY known finding
                    # neutralised: if the violation is gone there, known findings explain it
                    # together; if it persists it is new - it is then minimised on that binary (no
                    # drift possible) and reported if it also fails on the real one, else the
                    # unminimised history is reported.
                    f2 = attribute(v, mp)
                    if f2:
                        call = cf_all()
                        rall = replay(call, path)[1] if call else None
                        if call and rall is not None and not has_viol(rall, prop, v["cls"]):
                            known_hit[(f2["id"], f2["what"])] += 1
                            continue
                        final = path
                        if call:
                            subprocess.run([call, "shrink", path, "--prop", prop, "--cls", v["cls"]], capture_output=True, text=True)
                            mp2 = path + ".min2.json"
                            if os.path.exists(mp):
                                os.replace(mp, mp2)
                                doc = json.load(open(mp2))
                                doc["binary"] = "san" if d.get("san") else "plain"
                                json.dump(doc, open(mp2, "w"))
                                _, rc_, _ = replay(use, mp2)
                                _, rd_, _ = replay(use, mp2)
                                if has_viol(rc_, prop, v["cls"]) and has_viol(rd_, prop, v["cls"]) and rc_["hash"] == rd_["hash"] and not attribute(v, mp2):
                                    final = mp2
        reported.append((v, final))

    wall = time.time() - t0
    level = LEVEL.get(prop, "exploration")
    evidence = {
        "property_id": prop, "tier": tier, "seed": seed, "level": level,
        "coverage": {
            "evaluations": len(lines),
            "distinct_nontrivial": len(sigs_nt),
            "distinct_signatures_all": len(sigs),
            "rule": RULES["default"],
            "samples": samples or ["(no sample captured)"],
            "invocations": inv, "commands_spawned": spawns,
            "sim_time_covered_s": round(sim_ns / 1e9, 3),
            "runs_per_hour": int(len(lines) / wall * 3600) if wall > 0 else 0,
            "faults_fired": dict(agg_f),
            "probes": dict(agg_n),
            "binaries": {"plain_runs": n_plain, "san_runs": n_san},
            "known_findings_hit": {k[0]: n for k, n in known_hit.items()},
            "known_findings_hit_by_class": dict(known_cls),
            "unreset_globals": unreset,
            "worker_crashes": len(crashes),
            **({"small_graph_order_coverage": small_cov} if small_cov is not None else {}),
            "components": {
                "real": ["every src/*.cc of the POSIX ninja binary incl. ninja.cc main loop, subprocess-posix.cc, "
                         "jobserver-posix.cc, real_command_runner.cc, disk_interface.cc, status_printer.cc, line_printer.cc; glibc stdio buffering"],
                "stub": ["kernel (file system, pipes, FIFOs, processes, signals, clock, load average, tty)", "/bin/sh and the build commands (scripted children)",
                         "jobserver peers", "the user / editor"],
            },
        },
        "assumptions": [
            "the simulated POSIX layer is faithful for the calls ninja makes (DESIGN section 13 lists what it abstracts)",
            "commands are deterministic functions of the files they read and report every file they read",
            "file modification times never go backwards",
        ],
        "wall_s": round(wall, 2),
        "violations": len(new_violations) + sum(unexamined.values()),
    }
    os.makedirs(os.path.join(VERIF, "evidence"), exist_ok=True)
    json.dump(evidence, open(os.path.join(VERIF, "evidence", prop + ".json"), "w"), indent=1)

    for (kid, what), n in sorted(known_hit.items()):
        print("KNOWN-FINDING: property=%s %s %s (%d runs)" % (prop, kid, what, n))
    print("%s %s: %d runs, %d non-trivial distinct, %d invocations, %.1fs" % (prop, tier, len(lines), len(sigs_nt), inv, wall))
    if reported:
        for v, path in reported:
            print("  %s: %s" % (v["cls"], v["msg"][:300]))
            print("VIOLATION property=%s replay=%s" % (prop, path))
        sys.exit(1)
    if harness_problem:
        print("HARNESS PROBLEM: " + harness_problem)
        sys.exit(2)
    got = set(dd["run"] for dd in lines)
    missing = [i for i in range(n_total) if i not in got and i not in set(c[0] for c in crashes)]
    if missing:
        # every run must be accounted for: a result line that is lost could have been a violation
        print("HARNESS PROBLEM: %d of %d runs left no result line (first: %s)" % (len(missing), n_total, missing[:5]))
        sys.exit(2)
    sys.exit(0)


if __name__ == "__main__":
    main()
