#!/usr/bin/env python3
"""Harness gates (not per-property checks).

  tools/selftest.py determinism [runs_per_profile]
      every profile: the same run indices executed twice - once spread over 16
      workers, once over 3 (different in-process histories per worker) - must give
      identical full-trace hashes; likewise for the sanitizer binary.
"""
import sys, os, json
VERIF = os.path.dirname(os.path.dirname(os.path.abspath(__file__)))
sys.path.insert(0, os.path.join(VERIF, "tools"))
import build as B, check as C

def determinism(n):
    exe = B.build("plain"); san = B.build("san")
    if not exe or not san:
        print("build failed"); sys.exit(2)
    props = [c["property_id"] for c in json.load(open(os.path.join(VERIF, "MANIFEST.json")))["checks"]]
    bad = 0; total = 0
    out = os.path.join(VERIF, "out", "selftest"); os.makedirs(out, exist_ok=True)
    for p in props:
        a, ca = C.run_workers(exe, p, "quick", 7, 0, n, out, nworkers=16)
        b, cb = C.run_workers(exe, p, "quick", 7, 0, n, out, nworkers=3)
        s, cs = C.run_workers(san, p, "quick", 7, 0, max(20, n // 10), out, nworkers=8)
        s2, cs2 = C.run_workers(san, p, "quick", 7, 0, max(20, n // 10), out, nworkers=2)
        ha = {d["run"]: d["hash"] for d in a}; hb = {d["run"]: d["hash"] for d in b}; hs = {d["run"]: d["hash"] for d in s}; hs2 = {d["run"]: d["hash"] for d in s2}
        mism = [i for i in ha if hb.get(i) != ha[i]]
        # (san is compared with san: `-t graph` prints node addresses, which differ between the two binaries)
        mism_s = [i for i in hs if hs2.get(i) != hs[i]]
        total += len(ha) + len(hs)
        bad += len(mism) + len(mism_s)
        print("%s: %d runs x2 (16 vs 3 workers) mismatches=%d; %d runs san twice (8 vs 2 workers) mismatches=%d; crashes=%d" % (p, len(ha), len(mism), len(hs), len(mism_s), len(ca) + len(cb) + len(cs)), mism[:5], mism_s[:5])
    print("determinism: %d executions compared, %d mismatches" % (total, bad))
    json.dump({"executions_compared": total, "mismatches": bad}, open(os.path.join(VERIF, "selftest_results", "determinism.json"), "w"))
    sys.exit(1 if bad else 0)

def fidelity(n):
    """sim vs real: same scenarios and histories through the simulated kernel and through the real one."""
    import subprocess
    exe = B.build("plain")
    if not exe:
        print("build failed"); sys.exit(2)
    real = os.path.join(VERIF, "build", "plain", "realninja")
    r = subprocess.run(["/usr/bin/ninja", "-C", os.path.dirname(real), "realninja"], capture_output=True, text=True)
    if r.returncode != 0:
        print(r.stdout[-2000:]); sys.exit(2)
    per = max(1, n // 8)
    procs = [subprocess.Popen([exe, "fidelity", "--seed", "11", "--first", str(i * per), "--count", str(per), real], stdout=subprocess.PIPE, text=True) for i in range(8)]
    tot = {"fidelity_runs": 0, "builds": 0, "commands": 0, "mismatching_runs": 0}
    bad = []
    for p in procs:
        out, _ = p.communicate()
        for ln in out.split("\n"):
            if not ln.startswith("{"):
                continue
            d = json.loads(ln)
            if "fidelity_runs" in d:
                for k in tot: tot[k] += d[k]
            elif d.get("mismatch"):
                bad.append(d)
    print("fidelity:", tot)
    for d in bad[:10]:
        print("  run", d["run"], d["mismatch"][:300])
    json.dump(tot, open(os.path.join(VERIF, "selftest_results", "fidelity.json"), "w"))
    sys.exit(1 if tot["mismatching_runs"] else 0)

if __name__ == "__main__":
    if len(sys.argv) > 1 and sys.argv[1] == "fidelity":
        fidelity(int(sys.argv[2]) if len(sys.argv) > 2 else 400)
    elif len(sys.argv) > 1 and sys.argv[1] == "determinism":
        determinism(int(sys.argv[2]) if len(sys.argv) > 2 else 300)
    else:
        print(__doc__)
