#!/usr/bin/env python3
"""Run checks against a seeded defect WITHOUT touching /repo or /verif: a scratch
git worktree of /repo gets the patch, a scratch copy of /verif (sources and tools
only) is built against it through VERIF_REPO, the given checks run there, and both
are removed.  Safe to use while a sweep over the real tree is running.

Usage: tools/lab.py <dir-with-patch.diff | patch file> <Cxx> [<Cxx>...] [--runs N] [--seed S] [--tier T]
Prints one line per check: `<Cxx> exit <rc>` plus the first violation lines, then a
JSON summary {check: exit}."""
import subprocess, sys, os, json, shutil, tempfile
VERIF = os.path.dirname(os.path.dirname(os.path.abspath(__file__)))


def main():
    d = sys.argv[1]
    args = sys.argv[2:]
    props = [a for a in args if a.startswith("C")]
    def opt(name, default=None):
        return args[args.index(name) + 1] if name in args else default
    runs, seed, tier = opt("--runs"), opt("--seed"), opt("--tier", "quick")
    patch = os.path.join(d, "patch.diff") if os.path.isdir(d) else d
    lab = tempfile.mkdtemp(prefix="lab_", dir="/tmp")
    wt = os.path.join(lab, "repo")
    vf = os.path.join(lab, "verif")
    results = {}
    try:
        r = subprocess.run(["git", "-C", "/repo", "worktree", "add", "--detach", wt, "HEAD"], capture_output=True, text=True)
        if r.returncode != 0:
            print("cannot create worktree: " + r.stderr); sys.exit(2)
        r = subprocess.run(["git", "-C", wt, "apply", os.path.abspath(patch)], capture_output=True, text=True)
        if r.returncode != 0:
            print("patch does not apply: " + r.stderr); sys.exit(2)
        os.makedirs(vf)
        for name in ("sim", "tools", "counterfactual", "known_findings.json", "MANIFEST.json", "properties.jsonl"):
            src = os.path.join(VERIF, name)
            if os.path.isdir(src): shutil.copytree(src, os.path.join(vf, name))
            elif os.path.exists(src): shutil.copy(src, vf)
        os.makedirs(os.path.join(vf, "evidence"))
        env = dict(os.environ, VERIF_REPO=wt)
        if runs: env["VERIF_RUNS"] = runs
        if seed: env["VERIF_SEED"] = seed
        b = subprocess.run([sys.executable, os.path.join(vf, "tools", "build.py"), "plain", "san"], capture_output=True, text=True, env=env, cwd=vf)
        if b.returncode != 0:
            print("build failed:\n" + (b.stdout + b.stderr)[-3000:]); sys.exit(2)
        for p in props:
            r = subprocess.run([sys.executable, os.path.join(vf, "tools", "check.py"), p, "--tier", tier], capture_output=True, text=True, env=env, cwd=vf)
            lines = [l for l in r.stdout.split("\n") if l.startswith("VIOLATION") or l.startswith("  ") or l.startswith("HARNESS")]
            results[p] = r.returncode
            print(p, "exit", r.returncode, flush=True)
            for l in lines[:6]:
                print("   ", l[:260])
    finally:
        subprocess.run(["git", "-C", "/repo", "worktree", "remove", "--force", wt], capture_output=True)
        shutil.rmtree(lab, ignore_errors=True)
        subprocess.run(["git", "-C", "/repo", "worktree", "prune"], capture_output=True)
    print(json.dumps(results))


if __name__ == "__main__":
    main()
