#!/bin/bash
# usage: tools/sweep.sh "<seeds>" [tier] ["<checks>"]   - runs every claimed check (or the given ones) for each seed, prints what needs attention
cd "$(dirname "$0")/.."
tier=${2:-quick}
props=${3:-$(python3 -c "import json; print(' '.join(c['property_id'] for c in json.load(open('MANIFEST.json'))['checks']))")}
for s in $1; do
  for p in $props; do
    out=$(VERIF_SEED=$s python3 tools/check.py $p --tier $tier 2>&1)
    rc=$?
    echo "seed=$s $p rc=$rc $(echo "$out" | grep -v '^KNOWN' | grep "$p $tier" | cut -c1-120)"
    if [ $rc -ne 0 ]; then echo "$out" | grep -v "^KNOWN" | cut -c1-400 | head -12; mkdir -p sweep_out; cp -r out/$p sweep_out/${p}_seed$s 2>/dev/null; fi
  done
done
