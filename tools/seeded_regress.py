#!/usr/bin/env python3
"""Re-run every kept seeded defect against the checks recorded as catching it (tools/lab.py:
scratch worktree + scratch harness copy, nothing in /repo or /verif is touched) and report
the ones no recorded check catches any more.  Usage: tools/seeded_regress.py [first [last]] [--jobs N]"""
import json, os, subprocess, sys, concurrent.futures
VERIF = os.path.dirname(os.path.dirname(os.path.abspath(__file__)))

def one(d):
    meta = json.load(open(os.path.join(d, "meta.json")))
    checks = meta.get("caught_by") or []
    if not checks:
        return os.path.basename(d), "not claimed", {}
    r = subprocess.run([sys.executable, os.path.join(VERIF, "tools", "lab.py"), d] + checks, capture_output=True, text=True)
    res = {}
    for ln in r.stdout.split("\n"):
        if ln.startswith("{"):
            try: res = json.loads(ln)
            except Exception: pass
    caught = [c for c, rc in res.items() if rc == 1]
    if not res and "patch does not apply" in r.stdout:
        return os.path.basename(d), "MISSED (stale patch: does not apply to the current tree)", res
    return os.path.basename(d), ("caught by " + " ".join(caught)) if caught else "MISSED (%s)" % res, res

def main():
    args = [a for a in sys.argv[1:] if not a.startswith("--")]
    jobs = int(sys.argv[sys.argv.index("--jobs") + 1]) if "--jobs" in sys.argv else 2
    dirs = sorted(os.path.join(VERIF, "seeded", x) for x in os.listdir(os.path.join(VERIF, "seeded")))
    first = int(args[0]) if args else 1
    last = int(args[1]) if len(args) > 1 else 10**6
    num = lambda d: int(os.path.basename(d)[1:].split('_')[0])
    dirs = sorted((d for d in dirs if first <= num(d) <= last), key=num)
    missed = 0
    with concurrent.futures.ThreadPoolExecutor(max_workers=jobs) as ex:
        for name, verdict, _ in ex.map(one, dirs):
            print(name, "->", verdict, flush=True)
            if verdict.startswith("MISSED"): missed += 1
    print("missed: %d of %d" % (missed, len(dirs)))
    sys.exit(1 if missed else 0)

if __name__ == "__main__":
    main()
