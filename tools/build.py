#!/usr/bin/env python3
"""Builds the simninja harness binaries from /repo's *current working tree*.

  tools/build.py [plain] [san] [cf:<name>]

Generates build/<variant>/build.ninja and runs the system ninja on it, so a
rebuild with nothing changed is a no-op.  Exit code 2 = harness build problem.
"""
import os, subprocess, sys, shlex, json, shutil

VERIF = os.path.dirname(os.path.dirname(os.path.abspath(__file__)))
REPO = os.environ.get("VERIF_REPO", "/repo")
SRC = os.path.join(REPO, "src")

NINJA_SRCS = """build_log build clean clparser dyndep dyndep_parser debug_flags deps_log
disk_interface edit_distance elide_middle eval_env explanations graph graphviz jobserver json
line_printer manifest_parser metrics missing_deps parser real_command_runner state
status_printer string_piece_util util version jobserver-posix subprocess-posix depfile_parser
lexer ninja""".split()

SIM_SRCS = "arena kernel glue scenario models world oracles driver logdrv fidelity main".split()

WRAPS = """fopen fclose fileno stat stat64 fstat fstat64 mkdir remove unlink rename truncate chown
open close read write fcntl getcwd chdir pipe posix_spawn posix_spawn_file_actions_adddup2
posix_spawn_file_actions_addclose posix_spawn_file_actions_addopen waitpid kill getpid exit _exit
abort __assert_fail ppoll sigaction sigprocmask sigpending isatty ioctl getenv getloadavg
_Z13GetTimeMillisv _Z17GetProcessorCountv""".split()

# libc entry points ninja may call without going through the simulation
# (pure functions, stdio on cookie streams, formatting, memory).
ALLOWED_UNWRAPPED_PREFIXES = ("_Z", "__cxa", "__gcov", "__gcda", "mangle_path", "__gxx", "_Unwind", "__dynamic_cast", "__stack_chk",
                              "__asan", "__ubsan", "__sanitizer", "_ITM", "__gmon", "__tls", "__dso_handle",
                              "_GLOBAL_OFFSET_TABLE_")
ALLOWED_UNWRAPPED = set("""memchr memcmp memcpy memmove memset strlen strcmp strncmp strchr strrchr strpbrk strerror
strtol strtoll strtoull strtod strtoul atoi snprintf vsnprintf sprintf fprintf vfprintf printf puts putchar putc
fputc fputs fwrite fread fflush feof ferror fseek ftell setvbuf perror __isoc99_sscanf sscanf getopt getopt_long
optarg optind opterr optopt sigemptyset sigaddset sigismember posix_spawn_file_actions_init
posix_spawn_file_actions_destroy posix_spawnattr_init posix_spawnattr_destroy posix_spawnattr_setflags
posix_spawnattr_setsigmask environ stdout stderr stdin __errno_location malloc free calloc realloc
toupper tolower isalpha isdigit isspace qsort bsearch abs labs strdup strncpy strcpy strcat memrchr
__ctype_b_loc __ctype_tolower_loc __ctype_toupper_loc __memcpy_chk __memset_chk __strcpy_chk __sprintf_chk
__snprintf_chk __vsnprintf_chk __fprintf_chk __printf_chk __vfprintf_chk __fread_chk __memmove_chk
sysconf sched_getaffinity __sched_cpucount strstr strtok floor ceil round log exp pow sqrt fmod
__popcountdi2 strnlen bcmp stpcpy rawmemchr __rawmemchr strcasecmp strncasecmp isalnum isprint
__isoc23_strtol __isoc23_strtoll __isoc23_strtoull __isoc23_sscanf""".split())


def variant_flags(variant):
    # -DNDEBUG as in the shipped (CMake RelWithDebInfo/Release) configuration: an
    # internal assert is not user-visible behaviour; the sanitizers see real errors.
    common = ["-std=c++17", "-g", "-fno-omit-frame-pointer", "-DUSE_PPOLL=1", "-DNDEBUG", "-Wno-deprecated"]
    if variant == "san":
        return common + ["-O1", "-fsanitize=address,undefined", "-fno-sanitize-recover=undefined"], \
               ["-fsanitize=address,undefined"]
    if variant == "dbg":   # diagnosis only: ninja's internal asserts enabled
        return [c for c in common if c != "-DNDEBUG"] + ["-O0"], []
    if variant == "cov":   # measurement only: which ninja code the simulated runs reach (tools/coverage.sh)
        return common + ["-O0", "--coverage"], ["--coverage"]
    return common + ["-O1"], []


def gen(variant, src_override=None):
    """src_override: {basename: path} for counterfactual builds."""
    out = os.path.join(VERIF, "build", variant)
    os.makedirs(out, exist_ok=True)
    kind = "san" if variant.startswith("san") else variant if variant in ("dbg", "cov") else "plain"
    cflags, ldflags = variant_flags(kind)
    lines = ["ninja_required_version = 1.5",
             "cxx = g++",
             "cflags = " + " ".join(cflags),
             "rule cc",
             "  command = $cxx $cflags $extra -MMD -MF $out.d -c $in -o $out",
             "  depfile = $out.d",
             "  deps = gcc",
             "  description = CC $out",
             "rule link",
             "  command = $cxx $in -o $out $ldflags",
             "  description = LINK $out",
             ""]
    objs = []
    for s in NINJA_SRCS:
        src = os.path.join(SRC, s + ".cc")
        if src_override and s in src_override:
            src = src_override[s]
        o = "n_%s.o" % s
        extra = "-iquote " + SRC
        if s == "ninja":
            extra += " -Dmain=ninja_main"
        lines += ["build %s: cc %s" % (o, src), "  extra = " + extra]
        objs.append(o)
    for s in SIM_SRCS:
        src = os.path.join(VERIF, "sim", s + ".cc")
        if not os.path.exists(src):
            continue
        o = "s_%s.o" % s
        lines += ["build %s: cc %s" % (o, src), "  extra = -iquote %s -I %s -Wall -Wno-unused-function" % (SRC, os.path.join(VERIF, "sim"))]
        objs.append(o)
    ld = " ".join(ldflags + ["-no-pie", "-Wl," + ",".join("--wrap=" + w for w in WRAPS)])
    lines += ["build simninja: link " + " ".join(objs), "  ldflags = " + ld, "default simninja", ""]
    if kind == "plain":
        # the same ninja objects without the simulated layer (fidelity cross-check)
        lines += ["build s_realmain.o: cc " + os.path.join(VERIF, "sim", "realmain.cc"), "  extra = ",
                  "build realninja: link " + " ".join(o for o in objs if o.startswith("n_")) + " s_realmain.o", "  ldflags = ", ""]
    path = os.path.join(out, "build.ninja")
    text = "\n".join(lines)
    old = open(path).read() if os.path.exists(path) else None
    if old != text:
        open(path, "w").write(text)
    return out, objs


def check_symbols(out):
    """Any file/process/signal/time libc symbol the ninja objects import that is
    neither wrapped nor known-pure makes the simulation leaky: refuse."""
    bad = set()
    defined = set()
    for s in NINJA_SRCS:
        o = os.path.join(out, "n_%s.o" % s)
        r = subprocess.run(["nm", "--defined-only", o], capture_output=True, text=True)
        for ln in r.stdout.split("\n"):
            parts = ln.split()
            if parts:
                defined.add(parts[-1])
    for s in NINJA_SRCS:
        o = os.path.join(out, "n_%s.o" % s)
        r = subprocess.run(["nm", "-u", o], capture_output=True, text=True)
        for ln in r.stdout.split("\n"):
            parts = ln.split()
            if not parts:
                continue
            sym = parts[-1].split("@")[0]
            if sym in defined or sym in WRAPS or sym in ALLOWED_UNWRAPPED or sym.startswith(ALLOWED_UNWRAPPED_PREFIXES):
                continue
            bad.add(sym)
    return sorted(bad)


def writable_globals(out):
    """Writable data symbols defined by the ninja objects (fresh-process reset list)."""
    syms = set()
    for s in NINJA_SRCS:
        o = os.path.join(out, "n_%s.o" % s)
        r = subprocess.run(["nm", "-C", o], capture_output=True, text=True)
        for ln in r.stdout.split("\n"):
            parts = ln.split(None, 2)
            if len(parts) == 3 and parts[1] in ("B", "D", "b", "d"):
                name = parts[2]
                if name.startswith(("guard variable", "vtable", "typeinfo", "std::", "__")):
                    continue
                syms.add(name)
    return sorted(syms)

KNOWN_RESET = {"State::kDefaultPool", "State::kConsolePool", "g_explaining", "g_keep_depfile", "g_keep_rsp",
               "g_experimental_statcache", "g_metrics", "SubprocessSet::interrupted_",
               "SubprocessSet::s_sigchld_received"}


def build(variant, quiet=True, src_override=None):
    out, _ = gen(variant, src_override)
    r = subprocess.run(["/usr/bin/ninja", "-C", out] + (["--quiet"] if False else []), capture_output=True, text=True)
    if r.returncode != 0:
        sys.stderr.write(r.stdout[-6000:] + r.stderr[-3000:])
        return None
    bad = check_symbols(out)
    if bad:
        sys.stderr.write("simninja: ninja objects import libc symbols outside the simulated layer: %s\n" % " ".join(bad))
        return None
    return os.path.join(out, "simninja")


def main():
    variants = sys.argv[1:] or ["plain"]
    for v in variants:
        exe = build(v)
        if not exe:
            sys.exit(2)
        print(exe)


if __name__ == "__main__":
    main()
