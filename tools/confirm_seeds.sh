#!/bin/bash
# Confirms seeded defects in a scratch worktree: patch applies, builds, the pinned
# test suite still passes, the demonstration fails with the patch and passes without.
# usage: tools/confirm_seeds.sh <src_dir1> <src_dir2> ...   (each with patch.diff + demo.sh)
set -u
WT=/tmp/seedwt
git -C /repo worktree remove --force $WT 2>/dev/null
git -C /repo worktree add $WT HEAD >/dev/null 2>&1 || exit 2
cd $WT && cmake -G Ninja -B build -DCMAKE_BUILD_TYPE=Release >/dev/null && cmake --build build >/dev/null 2>&1 || { echo "baseline build failed"; exit 2; }
cp build/ninja /tmp/seed_ninja_orig
for d in "$@"; do
  echo "=== $d"
  cd $WT && git checkout -q -- . 
  if ! git apply "$d/patch.diff"; then echo "RESULT $d apply=FAIL"; continue; fi
  if ! cmake --build build >/tmp/seed_build.log 2>&1; then echo "RESULT $d build=FAIL"; tail -5 /tmp/seed_build.log; continue; fi
  tests=$(./build/ninja_test 2>&1 | tail -1)
  demo=$d/demo.sh
  bash $demo $WT/build/ninja >/tmp/seed_demo_patched.log 2>&1; p=$?
  bash $demo /tmp/seed_ninja_orig >/tmp/seed_demo_orig.log 2>&1; o=$?
  echo "RESULT $d tests='$tests' demo_patched_exit=$p demo_orig_exit=$o"
done
cd / && git -C /repo worktree remove --force $WT; rm -f /tmp/seed_ninja_orig
