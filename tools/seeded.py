#!/usr/bin/env python3
"""Run checks against a seeded defect: apply its patch to /repo, run the given
checks, undo the patch.  Usage: tools/seeded.py <dir-with-patch.diff> <Cxx> [<Cxx>...] [--runs N]"""
import subprocess, sys, os, json
VERIF = os.path.dirname(os.path.dirname(os.path.abspath(__file__)))

def main():
    d = sys.argv[1]
    props = [a for a in sys.argv[2:] if a.startswith("C")]
    runs = None
    if "--runs" in sys.argv:
        runs = sys.argv[sys.argv.index("--runs") + 1]
    patch = os.path.join(d, "patch.diff")
    st = subprocess.run(["git", "-C", "/repo", "status", "--porcelain", "--untracked-files=no"], capture_output=True, text=True).stdout.strip()
    if st:
        print("refusing: /repo has local changes:\n" + st)
        sys.exit(2)
    r = subprocess.run(["git", "-C", "/repo", "apply", os.path.abspath(patch)], capture_output=True, text=True)
    if r.returncode != 0:
        print("patch does not apply: " + r.stderr)
        sys.exit(2)
    results = {}
    try:
        for p in props:
            env = dict(os.environ)
            if runs:
                env["VERIF_RUNS"] = runs
            r = subprocess.run([sys.executable, os.path.join(VERIF, "tools", "check.py"), p, "--tier", "quick"], capture_output=True, text=True, env=env, cwd=VERIF)
            lines = [l for l in r.stdout.split("\n") if l.startswith("VIOLATION") or l.startswith("  ") or l.startswith("HARNESS")]
            results[p] = {"exit": r.returncode, "lines": lines[:8]}
            print(p, "exit", r.returncode)
            for l in lines[:6]:
                print("   ", l[:260])
    finally:
        subprocess.run(["git", "-C", "/repo", "checkout", "--", "."])
    print(json.dumps({k: v["exit"] for k, v in results.items()}))

if __name__ == "__main__":
    main()
