#!/usr/bin/env python3
"""usage: tools/install_seed.py <dir with patch.diff demo.sh notes.txt> <name> <property> <needs to manifest> <caught by, comma separated> <checks run>  - files a confirmed seeded defect under seeded/<name>/ with its meta.json"""
import json,sys,os,shutil
src,name,prop,needs,caught,checks_run=sys.argv[1:7]
d=f'/verif/seeded/{name}'
os.makedirs(d,exist_ok=True)
for f in ('patch.diff','demo.sh','notes.txt'):
    shutil.copy(os.path.join(src,f),d)
meta={"id":name,"breaks_property":prop,"needs_to_manifest":needs,
 "confirmed":{"how":"tools/confirm_seeds.sh in a scratch worktree of /repo (removed afterwards): git apply, cmake --build, ./build/ninja_test, demo.sh with the patched and the unpatched binary","ninja_test_with_patch":"425 tests passed","demo_exit_with_patch":1,"demo_exit_without_patch":0},
 "checks_run":checks_run,"caught_by":[c for c in caught.split(',') if c],
 "origin":"written by a sub-agent that was given only the property text and its own scratch worktree"}
json.dump(meta,open(os.path.join(d,'meta.json'),'w'),indent=1)
print(d)
